//! C08 / C09 / C10: WeightedAliasIndex and WeightedTreeIndex (DESIGN §5).
use crate::report::{catch, Ctx, Violation};
use crate::rng::{hseed, lattice, lattice_for_range, BaseRng, VRng};
use crate::stats::{kl_bern, L_THRESH};
use proptest::prelude::*;
use rand::distr::uniform::SampleUniform;
use rand::RngExt;
use rand_distr::weighted::{AliasableWeight, Weight, WeightedAliasIndex, WeightedTreeIndex};
use rand_distr::Distribution;
use rayon::prelude::*;
use serde::{Deserialize, Serialize};
use serde_json::{json, Value};
use std::fmt::Debug;
use std::ops::SubAssign;
use std::sync::atomic::{AtomicU64, Ordering};

/// Exact model value of a weight: integers as sign + magnitude, floats as f64 (f32 widened exactly).
#[derive(Clone, Copy, Debug, PartialEq, Serialize, Deserialize)]
pub enum M {
    I {
        neg: bool,
        #[serde(with = "u128_str")]
        mag: u128,
    },
    F(#[serde(with = "f64_bits")] f64),
}

/// u128 magnitudes as decimal strings (serde_json has no 128-bit numbers without arbitrary_precision)
mod u128_str {
    use serde::{Deserialize, Deserializer, Serializer};
    pub fn serialize<S: Serializer>(v: &u128, s: S) -> Result<S::Ok, S::Error> {
        s.serialize_str(&v.to_string())
    }
    pub fn deserialize<'de, D: Deserializer<'de>>(d: D) -> Result<u128, D::Error> {
        let s = String::deserialize(d)?;
        s.parse::<u128>().map_err(serde::de::Error::custom)
    }
}
/// floats as bit patterns (NaN / inf safe)
mod f64_bits {
    use serde::{Deserialize, Deserializer, Serializer};
    pub fn serialize<S: Serializer>(v: &f64, s: S) -> Result<S::Ok, S::Error> {
        s.serialize_str(&format!("{:#018x}", v.to_bits()))
    }
    pub fn deserialize<'de, D: Deserializer<'de>>(d: D) -> Result<f64, D::Error> {
        let s = String::deserialize(d)?;
        u64::from_str_radix(s.trim_start_matches("0x"), 16).map(f64::from_bits).map_err(serde::de::Error::custom)
    }
}

impl M {
    pub fn int(v: i128) -> M {
        M::I { neg: v < 0, mag: v.unsigned_abs() }
    }
    pub fn is_zero(&self) -> bool {
        match self {
            M::I { mag, .. } => *mag == 0,
            M::F(x) => *x == 0.0,
        }
    }
    pub fn invalid(&self) -> bool {
        match self {
            M::I { neg, mag } => *neg && *mag > 0,
            M::F(x) => x.is_nan() || *x < 0.0,
        }
    }
    pub fn f(&self) -> f64 {
        match self {
            M::I { neg, mag } => {
                if *neg {
                    -(*mag as f64)
                } else {
                    *mag as f64
                }
            }
            M::F(x) => *x,
        }
    }
}

/// exact sum of non-negative integer magnitudes: (carry, low 128 bits)
fn big_sum(ws: &[M]) -> (u32, u128) {
    let mut c = 0u32;
    let mut lo = 0u128;
    for w in ws {
        if let M::I { mag, .. } = w {
            let (s, o) = lo.overflowing_add(*mag);
            lo = s;
            if o {
                c += 1;
            }
        }
    }
    (c, lo)
}

pub trait Wt:
    AliasableWeight + Weight + Clone + Copy + PartialEq + PartialOrd + SampleUniform + SubAssign + Debug + Send + Sync + 'static
{
    const NAME: &'static str;
    const IS_FLOAT: bool;
    const SIGNED: bool;
    /// W::MAX as a magnitude (ints) — floats use `fmax`
    fn imax() -> u128;
    fn fmax() -> f64;
    fn feps() -> f64;
    fn from_m(m: M) -> Self;
    fn to_m(self) -> M;
    /// alphabet extras for this type (negative / MIN / NaN ...)
    fn extras() -> Vec<M>;
}

macro_rules! wt_uint {
    ($t:ty, $name:expr) => {
        impl Wt for $t {
            const NAME: &'static str = $name;
            const IS_FLOAT: bool = false;
            const SIGNED: bool = false;
            fn imax() -> u128 {
                <$t>::MAX as u128
            }
            fn fmax() -> f64 {
                <$t>::MAX as f64
            }
            fn feps() -> f64 {
                0.0
            }
            fn from_m(m: M) -> Self {
                match m {
                    M::I { mag, .. } => mag as $t,
                    M::F(x) => x as $t,
                }
            }
            fn to_m(self) -> M {
                M::I { neg: false, mag: self as u128 }
            }
            fn extras() -> Vec<M> {
                vec![]
            }
        }
    };
}
macro_rules! wt_sint {
    ($t:ty, $name:expr) => {
        impl Wt for $t {
            const NAME: &'static str = $name;
            const IS_FLOAT: bool = false;
            const SIGNED: bool = true;
            fn imax() -> u128 {
                <$t>::MAX as u128
            }
            fn fmax() -> f64 {
                <$t>::MAX as f64
            }
            fn feps() -> f64 {
                0.0
            }
            fn from_m(m: M) -> Self {
                match m {
                    M::I { neg, mag } => {
                        if neg {
                            (mag as i128).wrapping_neg() as $t
                        } else {
                            mag as $t
                        }
                    }
                    M::F(x) => x as $t,
                }
            }
            fn to_m(self) -> M {
                M::int(self as i128)
            }
            fn extras() -> Vec<M> {
                vec![M::int(-1), M::int(<$t>::MIN as i128)]
            }
        }
    };
}
macro_rules! wt_float {
    ($t:ty, $name:expr) => {
        impl Wt for $t {
            const NAME: &'static str = $name;
            const IS_FLOAT: bool = true;
            const SIGNED: bool = true;
            fn imax() -> u128 {
                0
            }
            fn fmax() -> f64 {
                <$t>::MAX as f64
            }
            fn feps() -> f64 {
                <$t>::EPSILON as f64
            }
            fn from_m(m: M) -> Self {
                m.f() as $t
            }
            fn to_m(self) -> M {
                M::F(self as f64)
            }
            fn extras() -> Vec<M> {
                // (the smallest subnormal: a weight sum that small makes rand's Uniform round up to its bound,
                // finding C08-alias-subnormal-weight-sum)
                vec![M::F(-0.0), M::F(f64::NAN), M::F(f64::INFINITY), M::F(<$t>::MIN_POSITIVE as f64), M::F(<$t>::from_bits(1) as f64), M::F(-1.0)]
            }
        }
    };
}
wt_uint!(u8, "u8");
wt_uint!(u16, "u16");
wt_uint!(u32, "u32");
wt_uint!(u64, "u64");
wt_uint!(u128, "u128");
wt_uint!(usize, "usize");
wt_sint!(i8, "i8");
wt_sint!(i16, "i16");
wt_sint!(i32, "i32");
wt_sint!(i64, "i64");
wt_sint!(i128, "i128");
wt_float!(f32, "f32");
wt_float!(f64, "f64");

#[macro_export]
macro_rules! for_all_wt {
    ($f:ident ( $($arg:expr),* )) => {{
        $f::<u8>($($arg),*); $f::<u16>($($arg),*); $f::<u32>($($arg),*); $f::<u64>($($arg),*); $f::<u128>($($arg),*); $f::<usize>($($arg),*);
        $f::<i8>($($arg),*); $f::<i16>($($arg),*); $f::<i32>($($arg),*); $f::<i64>($($arg),*); $f::<i128>($($arg),*);
        $f::<f32>($($arg),*); $f::<f64>($($arg),*);
    }};
}

/// class of an alias weight vector for known-finding signatures
fn vec_class<W: Wt>(ws: &[M]) -> &'static str {
    let n = ws.len().max(1) as f64;
    if W::IS_FLOAT && ws.iter().any(|m| m.f().is_finite() && m.f() > W::fmax() / n / 4.0) {
        "vector:float_near_type_max"
    } else {
        "vector"
    }
}

pub fn vec_class_pub<W: Wt>(ws: &[M]) -> &'static str {
    vec_class::<W>(ws)
}

/// one try_sample on the state reached by `ops` under a forced word (fuzz target tree_sample; the panic while
/// building a state is reported like in c10_one)
pub fn tree_sample_case<W: Wt>(ops: &[Op], pos: u64, word: u64, seed: u64) -> Option<(String, String)> {
    let (tree, model) = match state_from_history::<W>(ops)? {
        Ok(x) => x,
        Err(msg) => return Some(("panic_building_state".into(), format!("WeightedTreeIndex<{}>: {}", W::NAME, msg))),
    };
    let mut rng = VRng::from_env(seed);
    rng.force(pos, word);
    rng.begin_call();
    tree_sample_check::<W>(&tree, &model, &mut rng)
}

fn viol(ctx: &Ctx, fam: &str, wt: &str, sym: &str, trig: &str, what: String, case: Value) {
    ctx.violation(Violation {
        property: ctx.property.clone(),
        family: fam.into(),
        float: wt.into(),
        symptom: sym.into(),
        trigger: trig.into(),
        what,
        case,
    });
}

fn show(ws: &[M]) -> String {
    let v: Vec<String> = ws
        .iter()
        .take(12)
        .map(|m| match m {
            M::I { neg, mag } => format!("{}{}", if *neg { "-" } else { "" }, mag),
            M::F(x) => format!("{:e}", x),
        })
        .collect();
    format!("[{}{}]", v.join(","), if ws.len() > 12 { format!(",… len {}", ws.len()) } else { String::new() })
}

// ------------------------------------------------------------------------------------------------
// C08: alias

/// expected outcome of WeightedAliasIndex::new per the documented conditions: set of acceptable error names (empty = Ok)
pub fn alias_spec<W: Wt>(ws: &[M]) -> Vec<&'static str> {
    let mut errs = vec![];
    let n = ws.len();
    if n == 0 {
        errs.push("InvalidInput");
        return errs;
    }
    let too_big = |m: &M| -> bool {
        match m {
            M::I { neg, mag } => !*neg && *mag > W::imax() / n as u128,
            // "greater than max = W::MAX / weights.len()" evaluated in the weight type
            M::F(x) => {
                if W::NAME == "f32" {
                    (*x as f32) > f32::MAX / (n as u32 as f32)
                } else {
                    *x > f64::MAX / (n as u32 as f64)
                }
            }
        }
    };
    if ws.iter().any(|m| m.invalid() || too_big(m)) {
        errs.push("InvalidWeight");
    }
    if ws.iter().all(|m| m.is_zero()) {
        errs.push("InsufficientNonZero");
    }
    errs
}

#[derive(Clone, Debug, Serialize, Deserialize)]
pub struct AliasCase {
    pub wt: String,
    pub ws: Vec<M>,
}

/// structural check of one vector: error spec, weights() reconstruction. Returns (symptom, message).
/// C04 judges only the constructor outcome (weights() is C08's clause)
pub static SKIP_WEIGHTS_RECONSTRUCTION: std::sync::atomic::AtomicBool = std::sync::atomic::AtomicBool::new(false);
/// max over the run of |weights()[i] - w_i| / tolerance for float tables (bits of an f64)
pub static FLOAT_RECON_MAX: std::sync::atomic::AtomicU64 = std::sync::atomic::AtomicU64::new(0);

pub fn alias_structural<W: Wt>(ws: &[M]) -> Option<(String, String)> {
    let input: Vec<W> = ws.iter().map(|&m| W::from_m(m)).collect();
    let spec = alias_spec::<W>(ws);
    let res = match catch(|| WeightedAliasIndex::<W>::new(input.clone())) {
        Ok(r) => r,
        Err(p) => return Some(("panic".into(), format!("WeightedAliasIndex<{}>::new({}) panicked: {}", W::NAME, show(ws), p.lines().next().unwrap_or("")))),
    };
    match res {
        Err(e) => {
            let name = format!("{:?}", e);
            if spec.is_empty() {
                Some(("rejected_valid".into(), format!("WeightedAliasIndex<{}>::new({}) = Err({}) but no documented error condition holds", W::NAME, show(ws), name)))
            } else if !spec.iter().any(|s| *s == name) {
                Some(("wrong_variant".into(), format!("WeightedAliasIndex<{}>::new({}) = Err({}), conditions that hold: {:?}", W::NAME, show(ws), name, spec)))
            } else {
                None
            }
        }
        Ok(d) => {
            if !spec.is_empty() {
                return Some(("accepted_invalid".into(), format!("WeightedAliasIndex<{}>::new({}) = Ok but {:?} holds", W::NAME, show(ws), spec)));
            }
            if SKIP_WEIGHTS_RECONSTRUCTION.load(Ordering::Relaxed) {
                return None;
            }
            let back = match catch(|| d.weights()) {
                Ok(b) => b,
                Err(p) => return Some(("panic".into(), format!("WeightedAliasIndex<{}>::weights() panicked for {}: {}", W::NAME, show(ws), p.lines().next().unwrap_or("")))),
            };
            if back.len() != ws.len() {
                return Some(("weights_len".into(), format!("weights() length {} != {}", back.len(), ws.len())));
            }
            if !W::IS_FLOAT {
                for (i, (b, w)) in back.iter().zip(ws.iter()).enumerate() {
                    if b.to_m() != *w {
                        return Some(("weights_reconstruction".into(), format!("WeightedAliasIndex<{}>: weights()[{}] = {:?} but the input was {} ", W::NAME, i, b, show(ws))));
                    }
                }
            } else {
                let sum: f64 = ws.iter().map(|m| m.f()).sum();
                // "agrees to rounding error", as a sound bound for the documented construction: a column is the
                // target of up to n subtractions at magnitude n*w_i (error n/2 eps w_i after the final division by
                // n) and every aliased share (weight_sum - odds) carries the error of the pairwise sum,
                // (log2 n)/2 eps sum in the worst case, up to n times, divided by n. Tolerance = twice that.
                // (The largest error/tolerance seen on a run is written to the evidence.)
                let lg = 1.0 + (ws.len().max(1) as f64).log2();
                for (i, (b, w)) in back.iter().zip(ws.iter()).enumerate() {
                    let bf = b.to_m().f();
                    let tol = 2.0 * W::feps() * (ws.len() as f64 * w.f().abs() + lg * sum);
                    if tol > 0.0 && bf.is_finite() {
                        // largest error / tolerance seen on this run (evidence: how much margin the rule leaves)
                        let ratio = (bf - w.f()).abs() / tol;
                        let mut cur = FLOAT_RECON_MAX.load(Ordering::Relaxed);
                        while ratio > f64::from_bits(cur) {
                            match FLOAT_RECON_MAX.compare_exchange(cur, ratio.to_bits(), Ordering::Relaxed, Ordering::Relaxed) {
                                Ok(_) => break,
                                Err(c) => cur = c,
                            }
                        }
                    }
                    if !((bf - w.f()).abs() <= tol) {
                        return Some(("weights_reconstruction".into(), format!("WeightedAliasIndex<{}>: weights()[{}] = {:e} vs input {:e} (tol {:e}) for {}", W::NAME, i, bf, w.f(), tol, show(ws))));
                    }
                }
            }
            None
        }
    }
}

fn alphabet<W: Wt>(len: usize) -> Vec<M> {
    let mut a: Vec<M> = vec![];
    if W::IS_FLOAT {
        let m = if W::NAME == "f32" { (f32::MAX / len as f32) as f64 } else { f64::MAX / len as f64 };
        let (dn, up) = if W::NAME == "f32" { ((m as f32).next_down() as f64, (m as f32).next_up() as f64) } else { (m.next_down(), m.next_up()) };
        for x in [0.0, 1.0, 2.0, 3.0, dn, m, up] {
            a.push(M::F(x));
        }
    } else {
        let m = W::imax() / len as u128;
        for x in [0u128, 1, 2, 3, m.saturating_sub(1), m, m.saturating_add(1).min(W::imax())] {
            a.push(M::I { neg: false, mag: x });
        }
    }
    a.extend(W::extras());
    let mut out: Vec<M> = vec![];
    for m in a {
        if !out.iter().any(|o| match (o, &m) {
            (M::F(a), M::F(b)) => a.to_bits() == b.to_bits(),
            (a, b) => a == b,
        }) {
            out.push(m);
        }
    }
    out
}

pub fn alias_exhaustive<W: Wt>(ctx: &Ctx, maxlen: usize) {
    let total = AtomicU64::new(0);
    let classes = [AtomicU64::new(0), AtomicU64::new(0), AtomicU64::new(0)]; // ok / err / ok with >=2 distinct nonzero
    for len in 0..=maxlen {
        let alpha = alphabet::<W>(len.max(1));
        let k = alpha.len();
        let count = (k as u64).pow(len as u32);
        (0..count).into_par_iter().for_each(|idx| {
            let mut x = idx;
            let mut ws = Vec::with_capacity(len);
            for _ in 0..len {
                ws.push(alpha[(x % k as u64) as usize]);
                x /= k as u64;
            }
            total.fetch_add(1, Ordering::Relaxed);
            let spec = alias_spec::<W>(&ws);
            if spec.is_empty() {
                classes[0].fetch_add(1, Ordering::Relaxed);
                let mut nz: Vec<u64> = ws.iter().filter(|m| !m.is_zero()).map(|m| m.f().to_bits()).collect();
                nz.sort();
                nz.dedup();
                if nz.len() >= 2 {
                    classes[2].fetch_add(1, Ordering::Relaxed);
                }
            } else {
                classes[1].fetch_add(1, Ordering::Relaxed);
            }
            if let Some((sym, msg)) = alias_structural::<W>(&ws) {
                let cl = vec_class::<W>(&ws);
                viol(ctx, "WeightedAliasIndex", W::NAME, &sym, cl, msg, json!({"kind": "alias", "alias": AliasCase { wt: W::NAME.into(), ws }}));
            }
        });
    }
    let t = total.load(Ordering::Relaxed);
    ctx.eval(t);
    // non-trivial: >= 2 distinct non-zero weights, or an error/edge class
    ctx.nontrivial_add(classes[1].load(Ordering::Relaxed) + classes[2].load(Ordering::Relaxed));
    ctx.class(&format!("alias_exhaustive:{}:ok", W::NAME), classes[0].load(Ordering::Relaxed));
    ctx.class(&format!("alias_exhaustive:{}:err", W::NAME), classes[1].load(Ordering::Relaxed));
}

/// random weight vector with adversarial magnitude mixes
pub fn random_ws<W: Wt>(r: &mut BaseRng, maxlen: usize, allow_invalid: bool) -> Vec<M> {
    let len = match r.random_range(0..8) {
        0 => r.random_range(0..=3usize),
        1 => {
            // lengths where len*w overflows the narrow types
            *[255usize, 256, 257, 127, 128, 129, 31, 32, 33, 64, 65].get(r.random_range(0..11)).unwrap()
        }
        2 => r.random_range(1..=maxlen),
        _ => r.random_range(1..=40usize.min(maxlen)),
    }
    .min(maxlen);
    let n = len.max(1);
    let class = r.random_range(0..7);
    let mut ws: Vec<M> = vec![];
    for i in 0..len {
        let m = if W::IS_FLOAT {
            let mx = W::fmax() / n as f64;
            let x = match class {
                0 => 1.0,
                1 => {
                    if i == len / 2 {
                        (r.random::<f64>() * 1e3).max(1e-3)
                    } else {
                        0.0
                    }
                }
                2 => 0.5f64.powi(i as i32 % 60) * 1e3,
                3 => mx * if r.random::<bool>() { 1.0 } else { 0.999 },
                4 => (r.random::<f64>() * 40.0 - 20.0).exp(),
                5 => {
                    if r.random_range(0..3) == 0 {
                        0.0
                    } else {
                        r.random::<f64>()
                    }
                }
                _ => (r.random_range(0..4u32)) as f64,
            };
            let x = if W::NAME == "f32" { x as f32 as f64 } else { x };
            M::F(x)
        } else {
            let mx = W::imax() / n as u128;
            let x: u128 = match class {
                0 => 1.max(mx.min(7)),
                1 => {
                    if i == len / 2 {
                        1 + (r.random::<u64>() as u128 % mx.max(1))
                    } else {
                        0
                    }
                }
                2 => mx >> (i as u32 % 100).min(127),
                3 => mx - (r.random_range(0..2u32) as u128).min(mx),
                4 => if mx == u128::MAX { r.random::<u128>() } else { r.random::<u128>() % (mx + 1) },
                5 => {
                    if r.random_range(0..3) == 0 {
                        0
                    } else {
                        (r.random::<u64>() as u128 % 1000).min(mx)
                    }
                }
                _ => (r.random_range(0..4u32) as u128).min(mx),
            };
            M::I { neg: false, mag: x }
        };
        ws.push(m);
    }
    if allow_invalid && len > 0 && r.random_range(0..6) == 0 {
        let i = r.random_range(0..len);
        let ex = W::extras();
        ws[i] = if !ex.is_empty() && r.random::<bool>() {
            ex[r.random_range(0..ex.len())]
        } else if W::IS_FLOAT {
            M::F(W::fmax())
        } else {
            M::I { neg: false, mag: (W::imax() / n as u128).saturating_add(1) }
        };
        if let M::I { mag, .. } = ws[i] {
            if mag > W::imax() {
                ws[i] = M::I { neg: false, mag: W::imax() };
            }
        }
    }
    ws
}

/// frequency test of sampled indices against exact probabilities; returns the worst offending index if rejected
pub fn freq_reject(counts: &[u64], probs: &[f64], n: u64, rho_abs: f64, rho_rel: f64) -> Option<(usize, f64, f64, f64)> {
    let nf = n as f64;
    let mut worst: Option<(usize, f64, f64, f64)> = None;
    for (i, (&c, &p)) in counts.iter().zip(probs.iter()).enumerate() {
        let a = c as f64 / nf;
        let hi = (p * (1.0 + rho_rel) + rho_abs).min(1.0);
        let lo = (p * (1.0 - rho_rel) - rho_abs).max(0.0);
        let st = if a > hi {
            nf * kl_bern(a, hi, 1.0 - hi)
        } else if a < lo {
            nf * kl_bern(a, lo, 1.0 - lo)
        } else {
            0.0
        };
        if st > L_THRESH && worst.map(|w| st > w.3).unwrap_or(true) {
            worst = Some((i, a, p, st));
        }
    }
    worst
}

fn probs_of(ws: &[M]) -> Vec<f64> {
    // exact rationals evaluated in f64 (relative error <= len * 2^-53)
    let total: f64 = {
        let (c, lo) = big_sum(ws);
        if ws.iter().any(|m| matches!(m, M::F(_))) {
            ws.iter().map(|m| m.f()).sum()
        } else {
            c as f64 * 2f64.powi(128) + lo as f64
        }
    };
    ws.iter().map(|m| m.f() / total).collect()
}

/// Err("hang…") if the sampling did not finish within the deadline (a stuck sample() call: abandoned)
fn sample_counts<D: Distribution<usize> + Send + Clone + 'static>(d: &D, len: usize, n: u64, seed: u64) -> Result<Vec<u64>, String> {
    use std::sync::atomic::AtomicBool;
    static GAVE_UP: AtomicBool = AtomicBool::new(false);
    if GAVE_UP.load(Ordering::Relaxed) {
        return Err("skipped: an earlier sampling run of this check hung".into());
    }
    let d2 = d.clone();
    // generous: 1e7 draws take well under a second; the deadline only catches non-terminating calls
    let secs = 60 + n / 2_000_000;
    match crate::report::deadline(secs, move || sample_counts_inner(&d2, len, n, seed)) {
        Some(r) => r,
        None => {
            GAVE_UP.store(true, Ordering::Relaxed);
            Err(format!("hang: sampling {} indices did not finish within {} s (a sample() call does not return)", n, secs))
        }
    }
}

fn sample_counts_inner<D: Distribution<usize> + Send + Clone>(d: &D, len: usize, n: u64, seed: u64) -> Result<Vec<u64>, String> {
    let chunks = 16u64;
    let per = n / chunks;
    let clones: Vec<(u64, D)> = (0..chunks).map(|c| (c, d.clone())).collect();
    let parts: Vec<Result<Vec<u64>, String>> = clones
        .into_par_iter()
        .map(|(c, d)| {
            let mut rng = BaseRng::from_env(hseed(&[seed, c]));
            let mut counts = vec![0u64; len + 1];
            let r = catch(|| {
                for _ in 0..per {
                    let i = d.sample(&mut rng);
                    counts[i.min(len)] += 1;
                }
            });
            r.map(|_| counts)
        })
        .collect();
    let mut total = vec![0u64; len + 1];
    for p in parts {
        let p = p?;
        for (t, x) in total.iter_mut().zip(p.iter()) {
            *t += *x;
        }
    }
    Ok(total)
}

pub fn alias_sampling<W: Wt>(ctx: &Ctx, vectors: usize, n: u64)
where
    WeightedAliasIndex<W>: Send + Clone,
{
    let lat = lattice();
    let mut r = BaseRng::from_env(hseed(&[ctx.seed, crate::rng::hstr(W::NAME), 0xC08]));
    // fixed vectors at the per-length maximum (n*w reaches the type's MAX): lengths where (MAX/n)*n rounds up for floats
    let mut fixed: Vec<Vec<M>> = vec![];
    for len in [2usize, 3, 6, 7, 9, 12, 25, 31] {
        let mx = if W::IS_FLOAT {
            M::F(if W::NAME == "f32" { (f32::MAX / len as f32) as f64 } else { f64::MAX / len as f64 })
        } else {
            M::I { neg: false, mag: W::imax() / len as u128 }
        };
        let zero = M::from_zero::<W>();
        let v: Vec<M> = (0..len).map(|i| if i % 3 == 2 { zero } else { mx }).collect();
        if alias_spec::<W>(&v).is_empty() {
            fixed.push(v);
        }
    }
    if W::IS_FLOAT {
        // vectors whose sum is subnormal or the smallest normal: rand's Uniform over [0, sum) can round up to the
        // bound there (finding C08-alias-subnormal-weight-sum)
        let sub = if W::NAME == "f32" { f32::from_bits(1) as f64 } else { f64::from_bits(1) };
        let mp = if W::NAME == "f32" { f32::MIN_POSITIVE as f64 } else { f64::MIN_POSITIVE };
        for v in [vec![sub], vec![sub, 0.0, sub], vec![sub, 3.0 * sub], vec![mp], vec![mp, sub, 0.0], vec![0.0, 7.0 * sub, 2.0 * sub, 0.0, sub]] {
            fixed.push(v.into_iter().map(M::F).collect());
        }
    }
    let nfixed = fixed.len();
    for vi in 0..(vectors + nfixed) {
        let ws = if vi < nfixed {
            fixed[vi].clone()
        } else {
            loop {
                let w = random_ws::<W>(&mut r, if vi % 10 == 0 { 10_000 } else { 64 }, false);
                if alias_spec::<W>(&w).is_empty() {
                    break w;
                }
            }
        };
        let input: Vec<W> = ws.iter().map(|&m| W::from_m(m)).collect();
        let d = match catch(|| WeightedAliasIndex::<W>::new(input)) {
            Ok(Ok(d)) => d,
            _ => {
                if let Some((sym, msg)) = alias_structural::<W>(&ws) {
                    viol(ctx, "WeightedAliasIndex", W::NAME, &sym, vec_class::<W>(&ws), msg, json!({"kind": "alias", "alias": AliasCase { wt: W::NAME.into(), ws: ws.clone() }}));
                }
                continue;
            }
        };
        if let Some((sym, msg)) = alias_structural::<W>(&ws) {
            viol(ctx, "WeightedAliasIndex", W::NAME, &sym, vec_class::<W>(&ws), msg, json!({"kind": "alias", "alias": AliasCase { wt: W::NAME.into(), ws: ws.clone() }}));
        }
        let len = ws.len();
        let seed = hseed(&[ctx.seed, vi as u64, 0xA11A5]);
        // (a) frequencies
        let probs = probs_of(&ws);
        let (rho_abs, rho_rel) = if W::IS_FLOAT { (2.0 * if W::NAME == "f32" { 2f64.powi(-23) } else { 2f64.powi(-52) }, 8.0 * len as f64 * W::feps()) } else { (2f64.powi(-50), 0.0) };
        // sums below MIN_POSITIVE / eps: the uniform level in [0, sum) has fewer than 1/eps distinct values
        let tiny_sum = W::IS_FLOAT && ws.iter().map(|m| m.f()).sum::<f64>() < (if W::NAME == "f32" { f32::MIN_POSITIVE as f64 } else { f64::MIN_POSITIVE }) / W::feps();
        let judge = |n: u64, seed: u64| -> Result<Option<(usize, f64, f64, f64)>, String> {
            let counts = sample_counts(&d, len, n, seed)?;
            if counts[len] > 0 {
                return Err(format!("index >= len returned {} times", counts[len]));
            }
            for (i, w) in ws.iter().enumerate() {
                if w.is_zero() && counts[i] > 0 && !W::IS_FLOAT {
                    return Err(format!("zero-weight index {} returned {} times", i, counts[i]));
                }
            }
            if tiny_sum {
                // the level draw lives on the subnormal grid: w_i / sum has no relative precision to speak of, the
                // frequency clause is not judged (the index clauses above are)
                return Ok(None);
            }
            Ok(freq_reject(&counts[..len], &probs, (n / 16) * 16, rho_abs, rho_rel))
        };
        if tiny_sum {
            ctx.class("c08:frequency_not_judged_subnormal_scale_sum", 1);
        }
        match judge(n, seed) {
            Err(m) if m.starts_with("skipped") => ctx.class("c08:frequency_runs_skipped_after_hang", 1),
            Err(m) => viol(ctx, "WeightedAliasIndex", W::NAME, if m.starts_with("hang") { "hang" } else if m.contains("panic") { "panic" } else { "bad_index" }, "random_stream", format!("WeightedAliasIndex<{}> {}: {}", W::NAME, show(&ws), m), json!({"kind": "alias_sample", "alias": AliasCase { wt: W::NAME.into(), ws: ws.clone() }, "n": n})),
            Ok(Some(first)) => {
                if let Ok(Some(second)) = judge(4 * n, hseed(&[seed, 0xC0F1])) {
                    if second.0 == first.0 {
                        viol(ctx, "WeightedAliasIndex", W::NAME, "frequency", "random_stream", format!("WeightedAliasIndex<{}> {}: index {} observed {:.6e} expected {:.6e} (n={}, confirmed on 4n)", W::NAME, show(&ws), second.0, second.1, second.2, n), json!({"kind": "alias_sample", "alias": AliasCase { wt: W::NAME.into(), ws: ws.clone() }, "n": n}));
                    }
                }
            }
            Ok(None) => {}
        }
        ctx.eval(1);
        let mut nz: Vec<u64> = ws.iter().filter(|m| !m.is_zero()).map(|m| m.f().to_bits()).collect();
        nz.sort();
        nz.dedup();
        if nz.len() >= 2 {
            ctx.nontrivial(hseed(&[crate::rng::hstr(W::NAME), vi as u64, 0xA1]));
        }
        ctx.class(&format!("alias_sampled_vectors:{}", W::NAME), 1);
        ctx.sample(seed, || json!({"type": W::NAME, "weights": show(&ws), "n": n}));
        // (b) adversarial words on both draws: never a zero-weight index / out of range (integers), no panic
        if len <= 64 {
            let mut words = lat.clone();
            words.extend(lattice_for_range(len as u64));
            let mut ev = 0u64;
            for sd in 0..2u64 {
                for pos in 0..3u64 {
                    for &w in &words {
                        let mut rng = VRng::from_env(hseed(&[seed, sd]));
                        rng.force(pos, w);
                        rng.begin_call();
                        ev += 1;
                        match catch(|| d.sample(&mut rng)) {
                            Err(p) => viol(ctx, "WeightedAliasIndex", W::NAME, "panic", crate::streams::word_class(w), format!("WeightedAliasIndex<{}> {} sample panicked: {}", W::NAME, show(&ws), p), json!({"kind": "alias_stream", "alias": AliasCase { wt: W::NAME.into(), ws: ws.clone() }, "pos": pos, "word": w, "seed": hseed(&[seed, sd])})),
                            Ok(i) => {
                                if i >= len || (!W::IS_FLOAT && ws[i].is_zero()) {
                                    viol(ctx, "WeightedAliasIndex", W::NAME, "bad_index", crate::streams::word_class(w), format!("WeightedAliasIndex<{}> {} returned index {} (zero weight or out of range) with word {:#x} at position {}", W::NAME, show(&ws), i, w, pos), json!({"kind": "alias_stream", "alias": AliasCase { wt: W::NAME.into(), ws: ws.clone() }, "pos": pos, "word": w, "seed": hseed(&[seed, sd])}));
                                }
                            }
                        }
                    }
                }
            }
            ctx.eval(ev);
            ctx.nontrivial_add(ev / 3 * 2);
        }
    }
}

pub fn alias_random_structural<W: Wt>(ctx: &Ctx, cases: u32) {
    // proptest-driven: seeds -> vectors (construction over rejection), shrinking reduces the seed-derived vector by truncation
    let seed = hseed(&[ctx.seed, crate::rng::hstr(W::NAME), 0xC08B]);
    let evals = AtomicU64::new(0);
    let nontriv = AtomicU64::new(0);
    let strat = (any::<u64>(), 0usize..400).prop_map(|(s, cut)| {
        let mut r = BaseRng::new(crate::rng::Prng::Xoshiro, s);
        let maxlen = if s % 50 == 0 { 10_000 } else { 300 };
        let mut ws = random_ws::<W>(&mut r, maxlen, true);
        if cut < ws.len() && s % 3 == 0 {
            ws.truncate(cut);
        }
        ws
    });
    let res = crate::pt::search(seed, cases, strat, |ws| {
        evals.fetch_add(1, Ordering::Relaxed);
        let spec = alias_spec::<W>(ws);
        let mut nz: Vec<u64> = ws.iter().filter(|m| !m.is_zero()).map(|m| m.f().to_bits()).collect();
        nz.sort();
        nz.dedup();
        if !spec.is_empty() || nz.len() >= 2 {
            nontriv.fetch_add(1, Ordering::Relaxed);
        }
        match alias_structural::<W>(ws) {
            None => None,
            Some((s, m)) => {
                if !ctx.strict && ctx.is_known("WeightedAliasIndex", W::NAME, &s, vec_class::<W>(ws)) {
                    ctx.class("random_cases_excluded_by_known_finding", 1);
                    None
                } else {
                    Some(format!("{s}|{m}"))
                }
            }
        }
    });
    ctx.eval(evals.load(Ordering::Relaxed));
    ctx.nontrivial_add(nontriv.load(Ordering::Relaxed).min(cases as u64));
    ctx.class(&format!("alias_random_structural:{}", W::NAME), evals.load(Ordering::Relaxed));
    if let Err((ws, msg)) = res {
        let (sym, m) = msg.split_once('|').unwrap_or(("violation", &msg));
        let cl = vec_class::<W>(&ws);
        viol(ctx, "WeightedAliasIndex", W::NAME, sym, cl, m.to_string(), json!({"kind": "alias", "alias": AliasCase { wt: W::NAME.into(), ws }}));
    }
}

/// Integer alias tables with a small weight sum: sample() is a deterministic function of two uniform draws,
/// the column i in 0..n (a `Uniform<u32>`) and the level t in 0..S (a `Uniform<W>`). rand's `Uniform` maps a
/// word v to floor(v * range / 2^b) when the low half of the product is >= 2^b mod range; the word
/// ceil(x * 2^b / range) + 1 yields x and is always accepted while range <= 2^(b-1). Enumerating all n*S
/// pairs, index j must be returned exactly n * w_j times: the exact induced law of the table *as sampled*
/// (weights() only reflects the table as stored; an off-by-one in sample()'s comparison moves 1/(n S) of the
/// mass per column, far below the frequency tests).
fn alias_exact_pairs<W: Wt>(ctx: &Ctx, bits: u32)
where
    WeightedAliasIndex<W>: Send + Clone,
{
    let vectors = if cfg!(debug_assertions) { 20 } else if ctx.thorough() { 3000 } else { 300 };
    let mut r = BaseRng::from_env(hseed(&[ctx.seed, crate::rng::hstr(W::NAME), 0xA1E7]));
    let cap = W::imax();
    let mut pairs_total = 0u64;
    for vi in 0..vectors {
        let len = match vi % 4 {
            0 => r.random_range(1..=4usize),
            1 => *[7usize, 8, 9, 15, 16, 17, 31, 32, 33, 63, 64].get(r.random_range(0..11)).unwrap(),
            _ => r.random_range(1..=64usize),
        };
        let mut ws: Vec<u128> = vec![];
        let mut tot = 0u128;
        for _ in 0..len {
            let v = [0u128, 0, 1, 1, 1, 2, 3, 5, 8, 17, 40][r.random_range(0..11)];
            // every weight must also satisfy w <= MAX / len (the documented acceptance condition)
            let v = if tot + v > cap || v > cap / len as u128 { 0 } else { v };
            tot += v;
            ws.push(v);
        }
        if tot == 0 || (len as u128) * tot > (1 << 20) {
            continue;
        }
        let model: Vec<M> = ws.iter().map(|&mag| M::I { neg: false, mag }).collect();
        let alias = match catch(|| WeightedAliasIndex::<W>::new(model.iter().map(|&m| W::from_m(m)).collect::<Vec<W>>())) {
            Ok(Ok(a)) => a,
            _ => continue, // constructor outcomes are judged by the structural part
        };
        let n = len as u128;
        let base = VRng::mix(hseed(&[ctx.seed, vi as u64, 0xA1E8]));
        let mut counts = vec![0u64; len];
        let mut bad: Option<String> = None;
        let mut inconclusive = false;
        'outer: for i in 0..n {
            let w0 = ((((i << 32) + n - 1) / n) as u64 + 1) << 32;
            for t in 0..tot {
                let v = ((t << bits) + tot - 1) / tot + 1;
                let w1 = if bits == 32 { (v as u64) << 32 } else { v as u64 };
                let mut rng = base.clone();
                rng.force(0, w0);
                rng.force(1, w1);
                rng.begin_call();
                match catch(|| Distribution::sample(&alias, &mut rng)) {
                    Ok(j) if j < len => {
                        counts[j] += 1;
                        if rng.call_words != 2 {
                            // not the two-draw scheme the enumeration assumes: not judged here
                            inconclusive = true;
                            break 'outer;
                        }
                    }
                    Ok(j) => {
                        bad = Some(format!("column {i}, level {t}: index {j} >= len"));
                        break 'outer;
                    }
                    Err(m) => {
                        bad = Some(format!("column {i}, level {t}: panic: {}", m.lines().next().unwrap_or("")));
                        break 'outer;
                    }
                }
            }
        }
        if inconclusive {
            ctx.class("c08:exact_pairs_not_applicable(draws are not two words)", 1);
            continue;
        }
        pairs_total += (n * tot) as u64;
        ctx.eval((n * tot) as u64);
        ctx.nontrivial(hseed(&[crate::rng::hstr(W::NAME), vi as u64, 0x12]));
        if bad.is_none() {
            for (j, &w) in ws.iter().enumerate() {
                if counts[j] as u128 != n * w {
                    bad = Some(format!("index {j} (weight {w}) is returned for {} of the {} equally likely (column, level) pairs, expected n*w = {}", counts[j], n * tot, n * w));
                    break;
                }
            }
        }
        if let Some(msg) = bad {
            viol(ctx, "WeightedAliasIndex", W::NAME, "exact_law", "all_pairs", format!("WeightedAliasIndex<{}> {}: {}", W::NAME, show(&model), msg), json!({"kind": "alias", "alias": AliasCase { wt: W::NAME.into(), ws: model.clone() }}));
        }
    }
    ctx.class(&format!("c08:exact_pairs_enumerated:{}", W::NAME), pairs_total);
}

fn c08_one<W: Wt>(ctx: &Ctx)
where
    WeightedAliasIndex<W>: Send + Clone,
{
    let thorough = ctx.thorough();
    // lengths at the narrow types' limits (len = MAX - 1, MAX, MAX + 1 and the u32 conversion of len): sparse 0/1 vectors
    if !W::IS_FLOAT && W::imax() <= 65535 {
        let mx = W::imax() as usize;
        for len in [mx - 1, mx, mx + 1, 2 * mx + 1] {
            for pat in 0..3 {
                let ws: Vec<M> = (0..len).map(|i| M::I { neg: false, mag: match pat { 0 => 1, 1 => (i % 97 == 0) as u128, _ => (i == len - 1) as u128 } }).collect();
                ctx.eval(1);
                if let Some((sym, msg)) = alias_structural::<W>(&ws) {
                    let short = if msg.len() > 300 { format!("{} ... (len {})", &msg[..300], len) } else { msg };
                    viol(ctx, "WeightedAliasIndex", W::NAME, &sym, "vector:length_at_type_limit", short, json!({"kind": "alias", "alias": AliasCase { wt: W::NAME.into(), ws: if len <= 600 { ws } else { vec![] } }}));
                }
            }
        }
        ctx.class(&format!("alias_length_limit_vectors:{}", W::NAME), 12);
    }
    alias_exhaustive::<W>(ctx, if W::IS_FLOAT { 5 } else { 6 });
    alias_random_structural::<W>(ctx, if thorough { 200_000 } else { 6_000 });
    let fast_profile = !cfg!(debug_assertions);
    if fast_profile {
        alias_sampling::<W>(ctx, if thorough { 500 } else { 60 }, if thorough { 8_000_000 } else { 1_600_000 });
    } else {
        alias_sampling::<W>(ctx, 6, 160_000);
    }
}

/// C04's share: WeightedAliasIndex::new and WeightedTreeIndex::new/push/update (error spec, unchanged-on-error, accessors)
pub fn run_c04_part(ctx: &Ctx) {
    SKIP_WEIGHTS_RECONSTRUCTION.store(true, Ordering::Relaxed);
    alias_exhaustive::<u8>(ctx, 4);
    alias_exhaustive::<i8>(ctx, 4);
    alias_exhaustive::<u64>(ctx, 3);
    alias_exhaustive::<f32>(ctx, 3);
    alias_exhaustive::<f64>(ctx, 3);
    tree_exhaustive::<u8>(ctx, 2);
    tree_exhaustive::<i8>(ctx, 2);
    let cases = if ctx.thorough() { 20_000 } else { 1_500 };
    tree_random::<u8>(ctx, cases, 120);
    tree_random::<i32>(ctx, cases, 120);
    tree_random::<u128>(ctx, cases, 120);
    tree_random::<f64>(ctx, cases, 120);
    alias_random_structural::<u16>(ctx, cases);
    alias_random_structural::<i64>(ctx, cases);
    alias_random_structural::<f64>(ctx, cases);
}

pub fn run_c08(ctx: &Ctx) {
    for_all_wt!(c08_one(ctx));
    // exact induced law over all (column, level) pairs (integer types whose level draw is one 32- or 64-bit word)
    alias_exact_pairs::<u8>(ctx, 32);
    alias_exact_pairs::<u16>(ctx, 32);
    alias_exact_pairs::<u32>(ctx, 32);
    alias_exact_pairs::<i8>(ctx, 32);
    alias_exact_pairs::<i16>(ctx, 32);
    alias_exact_pairs::<i32>(ctx, 32);
    alias_exact_pairs::<u64>(ctx, 64);
    alias_exact_pairs::<i64>(ctx, 64);
    ctx.set_extra("float_reconstruction_max_error_over_tolerance", json!(f64::from_bits(FLOAT_RECON_MAX.load(Ordering::Relaxed))));
}

// ------------------------------------------------------------------------------------------------
// C09 / C10: tree

#[derive(Clone, Debug, PartialEq, Serialize, Deserialize)]
pub enum Op {
    New(Vec<M>),
    Push(M),
    Pop,
    /// index is taken modulo the current length (always in range); skipped when empty
    Update(usize, M),
}

#[derive(Clone, Debug, Serialize, Deserialize)]
pub struct TreeCase {
    pub wt: String,
    pub ops: Vec<Op>,
}

fn exceeds_max<W: Wt>(ws: &[M]) -> bool {
    if W::IS_FLOAT {
        return false;
    }
    let (c, lo) = big_sum(ws);
    c > 0 || lo > W::imax()
}

#[derive(Default)]
pub struct HistStats {
    /// largest total magnitude seen along the history (float rounding scale)
    pub scale: f64,
    pub steps: u64,
    pub new_level: u64,
    pub inner_update: u64,
    pub pop_across_level: u64,
    pub errors: u64,
}

fn is_pow2(x: usize) -> bool {
    x != 0 && x & (x - 1) == 0
}

/// Interpret a history against the model; returns the first discrepancy (symptom, message).
pub fn run_history<W: Wt>(ops: &[Op], stats: &mut HistStats) -> Option<(String, String)> {
    let mut model: Vec<M> = vec![];
    let mut tree: WeightedTreeIndex<W> = match catch(|| WeightedTreeIndex::<W>::new(Vec::<W>::new())) {
        Ok(Ok(t)) => t,
        Ok(Err(e)) => return Some(("rejected_valid".into(), format!("WeightedTreeIndex<{}>::new([]) = Err({:?})", W::NAME, e))),
        Err(p) => return Some(("panic".into(), format!("new([]) panicked: {p}"))),
    };
    let tname = W::NAME;
    for (step, op) in ops.iter().enumerate() {
        stats.steps += 1;
        let before = tree.clone();
        let ctxs = |what: &str| format!("WeightedTreeIndex<{}> step {} {}: {}", tname, step, op_show(op), what);
        match op {
            Op::New(ws) => {
                let input: Vec<W> = ws.iter().map(|&m| W::from_m(m)).collect();
                let r = match catch(|| WeightedTreeIndex::<W>::new(input)) {
                    Ok(r) => r,
                    Err(p) => return Some(("panic".into(), ctxs(&format!("panicked: {}", p.lines().next().unwrap_or(""))))),
                };
                let mut spec = vec![];
                if ws.iter().any(|m| m.invalid()) {
                    spec.push("InvalidWeight");
                }
                let valid: Vec<M> = ws.iter().filter(|m| !m.invalid()).cloned().collect();
                let float_overflow = W::IS_FLOAT && ws.iter().map(|m| m.f()).sum::<f64>() > W::fmax();
                if exceeds_max::<W>(&valid) {
                    spec.push("Overflow");
                }
                match r {
                    Ok(t) => {
                        if !spec.is_empty() {
                            return Some(("accepted_invalid".into(), ctxs(&format!("returned Ok although {:?} holds", spec))));
                        }
                        tree = t;
                        model = ws.clone();
                    }
                    Err(e) => {
                        stats.errors += 1;
                        let n = format!("{:?}", e);
                        if float_overflow && n == "Overflow" {
                            // unspecified: float total overflowing to +inf
                        } else if spec.is_empty() {
                            return Some(("rejected_valid".into(), ctxs(&format!("returned Err({n}) although no documented condition holds"))));
                        } else if !spec.iter().any(|s| *s == n) {
                            return Some(("wrong_variant".into(), ctxs(&format!("returned Err({n}); holding conditions {:?}", spec))));
                        }
                    }
                }
            }
            Op::Push(w) => {
                let r = match catch(|| {
                    let mut t = tree.clone();
                    let r = t.push(W::from_m(*w));
                    (t, r)
                }) {
                    Ok(x) => x,
                    Err(p) => return Some(("panic".into(), ctxs(&format!("panicked: {}", p.lines().next().unwrap_or(""))))),
                };
                let mut spec = vec![];
                if w.invalid() {
                    spec.push("InvalidWeight");
                } else {
                    let mut all = model.clone();
                    all.push(*w);
                    if exceeds_max::<W>(&all) {
                        spec.push("Overflow");
                    }
                }
                let float_overflow = W::IS_FLOAT && !w.invalid() && (model.iter().map(|m| m.f()).sum::<f64>() + w.f()) > W::fmax();
                match r.1 {
                    Ok(()) => {
                        if !spec.is_empty() {
                            return Some(("accepted_invalid".into(), ctxs(&format!("returned Ok although {:?} holds", spec))));
                        }
                        if is_pow2(model.len() + 1) {
                            stats.new_level += 1;
                        }
                        tree = r.0;
                        model.push(*w);
                    }
                    Err(e) => {
                        stats.errors += 1;
                        let n = format!("{:?}", e);
                        if float_overflow && n == "Overflow" {
                        } else if spec.is_empty() {
                            return Some(("rejected_valid".into(), ctxs(&format!("returned Err({n}) although no documented condition holds"))));
                        } else if !spec.iter().any(|s| *s == n) {
                            return Some(("wrong_variant".into(), ctxs(&format!("returned Err({n}); holding conditions {:?}", spec))));
                        }
                        if r.0 != before {
                            return Some(("changed_on_error".into(), ctxs(&format!("returned Err({n}) but the structure changed"))));
                        }
                    }
                }
            }
            Op::Pop => {
                let r = match catch(|| {
                    let mut t = tree.clone();
                    let r = t.pop();
                    (t, r)
                }) {
                    Ok(x) => x,
                    Err(p) => return Some(("panic".into(), ctxs(&format!("panicked: {}", p.lines().next().unwrap_or(""))))),
                };
                let expect = model.pop();
                match (r.1, expect) {
                    (None, None) => {}
                    (Some(g), Some(e)) => {
                        if is_pow2(model.len() + 1) {
                            stats.pop_across_level += 1;
                        }
                        let ok = if W::IS_FLOAT {
                            (g.to_m().f() - e.f()).abs() <= 4.0 * (model.len() as f64 + 1.0 + stats.steps as f64) * W::feps() * stats.scale.max(e.f())
                        } else {
                            g.to_m() == e
                        };
                        if !ok {
                            return Some(("pop_value".into(), ctxs(&format!("returned {:?}, the last weight is {:?}", g, e))));
                        }
                    }
                    (g, e) => return Some(("pop_value".into(), ctxs(&format!("returned {:?}, model says {:?}", g, e)))),
                }
                tree = r.0;
            }
            Op::Update(i, w) => {
                if model.is_empty() {
                    continue;
                }
                let idx = i % model.len();
                let r = match catch(|| {
                    let mut t = tree.clone();
                    let r = t.update(idx, W::from_m(*w));
                    (t, r)
                }) {
                    Ok(x) => x,
                    Err(p) => return Some(("panic".into(), ctxs(&format!("(index {idx}) panicked: {}", p.lines().next().unwrap_or(""))))),
                };
                let mut spec = vec![];
                let mut all = model.clone();
                all[idx] = *w;
                if w.invalid() {
                    spec.push("InvalidWeight");
                } else if exceeds_max::<W>(&all) {
                    spec.push("Overflow");
                }
                let float_overflow = W::IS_FLOAT && !w.invalid() && all.iter().map(|m| m.f()).sum::<f64>() > W::fmax();
                match r.1 {
                    Ok(()) => {
                        if !spec.is_empty() {
                            return Some(("accepted_invalid".into(), ctxs(&format!("(index {idx}) returned Ok although {:?} holds", spec))));
                        }
                        if 2 * idx + 2 < model.len() {
                            stats.inner_update += 1;
                        }
                        tree = r.0;
                        model = all;
                    }
                    Err(e) => {
                        stats.errors += 1;
                        let n = format!("{:?}", e);
                        if float_overflow && n == "Overflow" {
                        } else if spec.is_empty() {
                            return Some(("rejected_valid".into(), ctxs(&format!("(index {idx}) returned Err({n}) although no documented condition holds"))));
                        } else if !spec.iter().any(|s| *s == n) {
                            return Some(("wrong_variant".into(), ctxs(&format!("(index {idx}) returned Err({n}); holding conditions {:?}", spec))));
                        }
                        if r.0 != before {
                            return Some(("changed_on_error".into(), ctxs(&format!("(index {idx}) returned Err({n}) but the structure changed"))));
                        }
                    }
                }
            }
        }
        // invariants after every step
        let cur: f64 = model.iter().map(|m| m.f().abs()).sum();
        if W::IS_FLOAT && !(cur < W::fmax() / 8.0) {
            // float totals close to overflowing to +inf: not judged (DESIGN Appendix C)
            return None;
        }
        if cur.is_finite() && cur > stats.scale {
            stats.scale = cur;
        }
        if let Some(d) = compare_tree::<W>(&tree, &model, stats.scale, stats.steps) {
            return Some((d.0, ctxs(&d.1)));
        }
    }
    None
}

fn op_show(op: &Op) -> String {
    match op {
        Op::New(ws) => format!("new({})", show(ws)),
        Op::Push(w) => format!("push({})", show(&[*w])),
        Op::Pop => "pop()".into(),
        Op::Update(i, w) => format!("update({}, {})", i, show(&[*w])),
    }
}

pub fn compare_tree<W: Wt>(tree: &WeightedTreeIndex<W>, model: &[M], scale: f64, steps: u64) -> Option<(String, String)> {
    if tree.len() != model.len() {
        return Some(("len".into(), format!("len() = {} but the list has {} weights", tree.len(), model.len())));
    }
    if tree.is_empty() != model.is_empty() {
        return Some(("is_empty".into(), "is_empty() disagrees with the list".into()));
    }
    let fsum: f64 = model.iter().map(|m| m.f()).sum();
    // float trees: every operation rounds at the magnitude of the totals in force at that time, so the
    // drift is bounded by (len + steps) eps x (largest total seen along the history)
    let tol = 4.0 * (model.len() as f64 + steps as f64) * W::feps() * scale.max(fsum);
    for (i, m) in model.iter().enumerate() {
        let g = match catch(|| tree.get(i)) {
            Ok(g) => g,
            Err(p) => return Some(("panic".into(), format!("get({i}) panicked: {p}"))),
        };
        let ok = if W::IS_FLOAT { (g.to_m().f() - m.f()).abs() <= tol } else { g.to_m() == *m };
        if !ok {
            return Some(("get".into(), format!("get({}) = {:?} but the list {} has {:?}", i, g, show(model), m)));
        }
    }
    let valid_model = if W::IS_FLOAT { fsum > 0.0 } else { model.iter().any(|m| !m.is_zero()) };
    // float trees: is_valid may legitimately differ when the total is a rounding residue; judged only when the sum is clearly positive or exactly all-zero
    let judge_valid = !W::IS_FLOAT || fsum > tol.max(0.0) * 2.0 || (model.iter().all(|m| m.is_zero()) && scale == 0.0);
    if judge_valid && tree.is_valid() != valid_model {
        return Some(("is_valid".into(), format!("is_valid() = {} but the list {} sums to {}", tree.is_valid(), show(model), fsum)));
    }
    if !W::IS_FLOAT {
        let fresh = WeightedTreeIndex::<W>::new(model.iter().map(|&m| W::from_m(m)).collect::<Vec<W>>());
        match fresh {
            Ok(f) => {
                if f != *tree {
                    return Some(("ne_fresh".into(), format!("tree != WeightedTreeIndex::new({})", show(model))));
                }
            }
            Err(e) => return Some(("fresh_build_failed".into(), format!("WeightedTreeIndex::new({}) = Err({:?}) for a list reached by valid operations", show(model), e))),
        }
    }
    None
}

fn hist_nontrivial(s: &HistStats) -> bool {
    s.new_level + s.inner_update + s.pop_across_level + s.errors > 0
}

fn report_tree<W: Wt>(ctx: &Ctx, ops: Vec<Op>, sym: &str, msg: String) {
    viol(ctx, "WeightedTreeIndex", W::NAME, sym, "history", msg, json!({"kind": "tree", "tree": TreeCase { wt: W::NAME.into(), ops }}));
}

/// exhaustive histories over a small alphabet (u8 / i8)
pub fn tree_exhaustive<W: Wt>(ctx: &Ctx, depth: usize) {
    let alpha: Vec<M> = if W::SIGNED {
        vec![M::int(0), M::int(1), M::int(127), M::int(126), M::int(-1)]
    } else {
        vec![M::int(0), M::int(1), M::int(128), M::int(254), M::int(255)]
    };
    // start vectors of length <= 3
    let mut starts: Vec<Vec<M>> = vec![vec![]];
    for a in &alpha {
        starts.push(vec![*a]);
        for b in &alpha {
            starts.push(vec![*a, *b]);
            for c in &alpha {
                starts.push(vec![*a, *b, *c]);
            }
        }
    }
    // ops per step: push(a) x5, pop, update(i, a) for i in 0..4 x 5  => 26
    let mut step_ops: Vec<Op> = vec![Op::Pop];
    for a in &alpha {
        step_ops.push(Op::Push(*a));
        for i in 0..4usize {
            step_ops.push(Op::Update(i, *a));
        }
    }
    let k = step_ops.len() as u64;
    let per_start = k.pow(depth as u32);
    let total = AtomicU64::new(0);
    let nontriv = AtomicU64::new(0);
    let agg = [AtomicU64::new(0), AtomicU64::new(0), AtomicU64::new(0), AtomicU64::new(0)];
    starts.par_iter().for_each(|st| {
        for idx in 0..per_start {
            let mut x = idx;
            let mut ops = vec![Op::New(st.clone())];
            for _ in 0..depth {
                ops.push(step_ops[(x % k) as usize].clone());
                x /= k;
            }
            let mut hs = HistStats::default();
            let t = total.fetch_add(1, Ordering::Relaxed);
            if t == 12345 {
                ctx.sample(t, || json!({"type": W::NAME, "exhaustive_history": ops.iter().map(op_show).collect::<Vec<_>>()}));
            }
            if let Some((sym, msg)) = run_history::<W>(&ops, &mut hs) {
                report_tree::<W>(ctx, ops, &sym, msg);
            }
            if hist_nontrivial(&hs) {
                nontriv.fetch_add(1, Ordering::Relaxed);
            }
            agg[0].fetch_add(hs.new_level, Ordering::Relaxed);
            agg[1].fetch_add(hs.inner_update, Ordering::Relaxed);
            agg[2].fetch_add(hs.pop_across_level, Ordering::Relaxed);
            agg[3].fetch_add(hs.errors, Ordering::Relaxed);
        }
    });
    ctx.eval(total.load(Ordering::Relaxed));
    ctx.nontrivial_add(nontriv.load(Ordering::Relaxed));
    ctx.class(&format!("tree_exhaustive:{}:histories", W::NAME), total.load(Ordering::Relaxed));
    ctx.class("tree:push_opening_new_level", agg[0].load(Ordering::Relaxed));
    ctx.class("tree:update_of_inner_node_with_two_children", agg[1].load(Ordering::Relaxed));
    ctx.class("tree:pop_across_level_boundary", agg[2].load(Ordering::Relaxed));
    ctx.class("tree:error_returning_ops", agg[3].load(Ordering::Relaxed));
}

fn weight_strategy<W: Wt>() -> BoxedStrategy<M> {
    if W::IS_FLOAT {
        let mx = W::fmax();
        let f32_ = W::NAME == "f32";
        prop_oneof![
            3 => Just(M::F(0.0)),
            3 => Just(M::F(1.0)),
            4 => (0.0f64..1000.0).prop_map(move |x| M::F(if f32_ { x as f32 as f64 } else { x })),
            2 => (-40.0f64..40.0).prop_map(move |x| M::F(if f32_ { x.exp() as f32 as f64 } else { x.exp() })),
            1 => Just(M::F(-1.0)),
            1 => Just(M::F(f64::NAN)),
            1 => Just(M::F(-0.0)),
            1 => Just(M::F(mx / 4.0)),
        ]
        .boxed()
    } else {
        let mx = W::imax();
        let mut v = vec![
            (3, Just(M::int(0)).boxed()),
            (3, Just(M::int(1)).boxed()),
            (3, (0u64..1000).prop_map(move |x| M::I { neg: false, mag: (x as u128).min(mx) }).boxed()),
            (2, Just(M::I { neg: false, mag: mx }).boxed()),
            (2, Just(M::I { neg: false, mag: mx - 1 }).boxed()),
            (2, (1u32..300).prop_map(move |d| M::I { neg: false, mag: mx / d as u128 }).boxed()),
            (1, any::<u128>().prop_map(move |x| M::I { neg: false, mag: if mx == u128::MAX { x } else { x % (mx + 1) } }).boxed()),
        ];
        if W::SIGNED {
            v.push((1, Just(M::int(-1)).boxed()));
            v.push((1, Just(M::I { neg: true, mag: mx + 1 }).boxed()));
        }
        proptest::strategy::Union::new_weighted(v).boxed()
    }
}

fn op_strategy<W: Wt>() -> BoxedStrategy<Op> {
    let w = weight_strategy::<W>();
    prop_oneof![
        4 => w.clone().prop_map(Op::Push),
        2 => Just(Op::Pop),
        4 => (any::<usize>(), w.clone()).prop_map(|(i, w)| Op::Update(i % 1024, w)),
        1 => proptest::collection::vec(w, 0..20).prop_map(Op::New),
    ]
    .boxed()
}

pub fn tree_random<W: Wt>(ctx: &Ctx, cases: u32, maxops: usize) {
    let seed = hseed(&[ctx.seed, crate::rng::hstr(W::NAME), 0xC09]);
    let evals = AtomicU64::new(0);
    let nontriv = AtomicU64::new(0);
    let agg = [AtomicU64::new(0), AtomicU64::new(0), AtomicU64::new(0), AtomicU64::new(0), AtomicU64::new(0)];
    let strat = proptest::collection::vec(op_strategy::<W>(), 1..maxops);
    let res = crate::pt::search(seed, cases, strat, |ops| {
        let k = evals.fetch_add(1, Ordering::Relaxed);
        if k < 2 || k == 97 {
            ctx.sample(hseed(&[seed, k]), || json!({"type": W::NAME, "history": ops.iter().take(40).map(op_show).collect::<Vec<_>>(), "ops": ops.len()}));
        }
        let mut hs = HistStats::default();
        let r = run_history::<W>(ops, &mut hs);
        if hist_nontrivial(&hs) {
            nontriv.fetch_add(1, Ordering::Relaxed);
        }
        agg[0].fetch_add(hs.new_level, Ordering::Relaxed);
        agg[1].fetch_add(hs.inner_update, Ordering::Relaxed);
        agg[2].fetch_add(hs.pop_across_level, Ordering::Relaxed);
        agg[3].fetch_add(hs.errors, Ordering::Relaxed);
        agg[4].fetch_add(hs.steps, Ordering::Relaxed);
        r.map(|(s, m)| format!("{s}|{m}"))
    });
    ctx.eval(evals.load(Ordering::Relaxed));
    ctx.nontrivial_add(nontriv.load(Ordering::Relaxed).min(cases as u64));
    ctx.class(&format!("tree_random:{}:histories", W::NAME), evals.load(Ordering::Relaxed));
    ctx.class("tree:steps", agg[4].load(Ordering::Relaxed));
    ctx.class("tree:push_opening_new_level", agg[0].load(Ordering::Relaxed));
    ctx.class("tree:update_of_inner_node_with_two_children", agg[1].load(Ordering::Relaxed));
    ctx.class("tree:pop_across_level_boundary", agg[2].load(Ordering::Relaxed));
    ctx.class("tree:error_returning_ops", agg[3].load(Ordering::Relaxed));
    if let Err((ops, msg)) = res {
        let (sym, m) = msg.split_once('|').unwrap_or(("violation", &msg));
        ctx.sample(seed, || json!({"shrunk_failing_history": ops.iter().map(op_show).collect::<Vec<_>>() }));
        report_tree::<W>(ctx, ops, sym, m.to_string());
    }
}

fn c09_one<W: Wt>(ctx: &Ctx) {
    let t = ctx.thorough();
    tree_random::<W>(ctx, if t { 60_000 } else { 3_000 }, 400);
}

pub fn run_c09(ctx: &Ctx) {
    let depth = if ctx.thorough() { 5 } else { 4 };
    let depth = if cfg!(debug_assertions) { depth.min(3) } else { depth };
    tree_exhaustive::<u8>(ctx, depth);
    tree_exhaustive::<i8>(ctx, depth);
    for_all_wt!(c09_one(ctx));
}

// ---- C10 -----------------------------------------------------------------------------------------

/// Build a tree by replaying a (valid part of a) history; returns tree and model.
/// A panic inside an operation is returned as Err (the state cannot be built: reported by the caller).
fn state_from_history<W: Wt>(ops: &[Op]) -> Option<Result<(WeightedTreeIndex<W>, Vec<M>), String>> {
    state_from_history_sampling::<W>(ops, None)
}

/// same, drawing one sample between operations (history of *sampling and* updating: anything a sampler caches
/// must be invalidated by every mutation)
fn state_from_history_sampling<W: Wt>(ops: &[Op], sample_seed: Option<u64>) -> Option<Result<(WeightedTreeIndex<W>, Vec<M>), String>> {
    let mut model: Vec<M> = vec![];
    let mut tree = WeightedTreeIndex::<W>::new(Vec::<W>::new()).ok()?;
    let mut srng = sample_seed.map(VRng::from_env);
    for (step, op) in ops.iter().enumerate() {
        if let Some(rng) = srng.as_mut() {
            if tree.is_valid() {
                // panics here are judged by the sampling phases, not while building
                let _ = catch(|| tree.try_sample(rng));
            }
        }
        let r = catch(|| match op {
            Op::New(ws) => {
                if let Ok(t) = WeightedTreeIndex::<W>::new(ws.iter().map(|&m| W::from_m(m)).collect::<Vec<W>>()) {
                    tree = t;
                    model = ws.clone();
                }
            }
            Op::Push(w) => {
                if tree.push(W::from_m(*w)).is_ok() {
                    model.push(*w);
                }
            }
            Op::Pop => {
                tree.pop();
                model.pop();
            }
            Op::Update(i, w) => {
                if !model.is_empty() {
                    let idx = i % model.len();
                    if tree.update(idx, W::from_m(*w)).is_ok() {
                        model[idx] = *w;
                    }
                }
            }
        });
        if let Err(p) = r {
            return Some(Err(format!("step {} {} panicked: {}", step, op_show(op), p.lines().next().unwrap_or(""))));
        }
    }
    Some(Ok((tree, model)))
}

fn gen_history<W: Wt>(r: &mut BaseRng, target_len: usize, mutations: usize) -> Vec<Op> {
    // construction: start vector then a burst of pushes/pops/updates
    let rw = |r: &mut BaseRng, n: usize| -> M {
        if W::IS_FLOAT {
            let x = match r.random_range(0..6) {
                0 => 0.0,
                1 => 1.0,
                2 => (r.random::<f64>() * 30.0 - 15.0).exp(),
                _ => r.random::<f64>() * 10.0,
            };
            M::F(if W::NAME == "f32" { x as f32 as f64 } else { x })
        } else {
            let mx = W::imax() / (n.max(1) as u128 * 2);
            let x: u128 = match r.random_range(0..6) {
                0 => 0,
                1 => 1,
                2 => mx,
                3 => r.random::<u128>() % (mx + 1),
                _ => (r.random::<u64>() % 100) as u128,
            };
            M::I { neg: false, mag: x.min(mx) }
        }
    };
    let n0 = target_len;
    let mut ops = vec![Op::New((0..n0).map(|_| rw(r, n0 + mutations)).collect())];
    // a fraction of the histories contains operations that must be rejected (overflowing or invalid weights):
    // a rejected operation must leave the weights in force untouched
    let with_rejects = mutations > 0 && r.random_range(0..3) == 0;
    let huge = |r: &mut BaseRng| -> M {
        if W::IS_FLOAT {
            if r.random::<bool>() { M::F(f64::NAN) } else { M::F(-1.0) }
        } else if W::SIGNED && r.random_range(0..3) == 0 {
            M::int(-1)
        } else {
            M::I { neg: false, mag: W::imax() - (r.random_range(0..3u32) as u128) }
        }
    };
    for _ in 0..mutations {
        if with_rejects && r.random_range(0..4) == 0 {
            if r.random::<bool>() {
                ops.push(Op::Update(r.random_range(0..(n0.max(1))), huge(r)));
            } else {
                ops.push(Op::Push(huge(r)));
            }
            continue;
        }
        match r.random_range(0..6) {
            0 => ops.push(Op::Push(rw(r, n0 + mutations))),
            1 => ops.push(Op::Pop),
            _ => ops.push(Op::Update(r.random_range(0..(n0.max(1))), rw(r, n0 + mutations))),
        }
    }
    // float trees: some histories end by setting every weight to zero (rounding residue in the total)
    if W::IS_FLOAT && mutations > 0 && r.random_range(0..5) == 0 {
        for i in 0..(n0 + mutations) {
            ops.push(Op::Update(i, M::F(0.0)));
        }
    }
    ops
}

#[derive(Clone, Debug, Serialize, Deserialize)]
pub struct TreeSampleCase {
    pub wt: String,
    pub ops: Vec<Op>,
    pub pos: u64,
    pub word: u64,
    pub seed: u64,
}

fn tree_sample_check<W: Wt>(tree: &WeightedTreeIndex<W>, model: &[M], rng: &mut VRng) -> Option<(String, String)> {
    let valid = tree.is_valid();
    match catch(|| tree.try_sample(rng)) {
        Err(p) => {
            if valid {
                let sym = if p.contains("target_weight < self.get(index)") { "panic_assert_target" } else { "panic" };
                Some((sym.into(), format!("WeightedTreeIndex<{}> {} is_valid() but try_sample panicked: {}", W::NAME, show(model), p.lines().next().unwrap_or(""))))
            } else if model.is_empty() || model.iter().all(|m| m.is_zero()) {
                Some(("panic_when_all_zero".into(), format!("WeightedTreeIndex<{}> {} (empty / all weights zero): try_sample panicked instead of returning InsufficientNonZero: {}", W::NAME, show(model), p.lines().next().unwrap_or(""))))
            } else {
                None
            }
        }
        Ok(Ok(i)) => {
            if i >= model.len() {
                Some(("bad_index".into(), format!("index {} out of range for {}", i, show(model))))
            } else if !W::IS_FLOAT && model[i].is_zero() {
                Some(("zero_weight_index".into(), format!("WeightedTreeIndex<{}> {} returned zero-weight index {}", W::NAME, show(model), i)))
            } else {
                None
            }
        }
        Ok(Err(e)) => {
            let all_zero = model.iter().all(|m| m.is_zero());
            let n = format!("{:?}", e);
            if valid {
                Some(("error_when_valid".into(), format!("is_valid() but try_sample = Err({n}) for {}", show(model))))
            } else if (model.is_empty() || all_zero) && n != "InsufficientNonZero" {
                Some(("wrong_variant".into(), format!("empty/all-zero tree returned Err({n})")))
            } else {
                None
            }
        }
    }
}

fn c10_one<W: Wt>(ctx: &Ctx)
where
    WeightedTreeIndex<W>: Send + Clone,
{
    let t = ctx.thorough();
    let checked = cfg!(debug_assertions);
    let states = if checked { 40 } else if t { 900 } else { 150 };
    let n: u64 = if checked { 80_000 } else if t { 8_000_000 } else { 1_600_000 };
    let lat = lattice();
    let mut r = BaseRng::from_env(hseed(&[ctx.seed, crate::rng::hstr(W::NAME), 0xC10]));
    for si in 0..states {
        let len = match si % 6 {
            0 => r.random_range(1..=4usize),
            1 => r.random_range(5..=40usize),
            2 => *[7usize, 8, 9, 15, 16, 17, 31, 33, 63, 65].get(r.random_range(0..10)).unwrap(),
            3 if si % 30 == 3 => r.random_range(1000..=10_000usize),
            _ => r.random_range(1..=100usize),
        };
        let muts = if si % 4 == 0 { 0 } else { r.random_range(1..=60usize) };
        let ops = gen_history::<W>(&mut r, len, muts);
        let built = if si % 2 == 1 { state_from_history_sampling::<W>(&ops, Some(hseed(&[ctx.seed, si as u64, 0x5A3]))) } else { state_from_history::<W>(&ops) };
        if si % 2 == 1 {
            ctx.class("c10:states_built_with_sampling_between_operations", 1);
        }
        let (tree, model) = match built {
            Some(Ok(x)) => x,
            Some(Err(msg)) => {
                viol(ctx, "WeightedTreeIndex", W::NAME, "panic_building_state", "history", format!("WeightedTreeIndex<{}>: an operation with an in-range index panicked while building a state: {}", W::NAME, msg), json!({"kind": "tree", "tree": TreeCase { wt: W::NAME.into(), ops: if ops.len() <= 400 { ops.clone() } else { vec![] } }}));
                continue;
            }
            None => continue,
        };
        let seed = hseed(&[ctx.seed, si as u64, 0x7EE]);
        ctx.eval(1);
        // the object that lived through the history vs a clone and vs a fresh build from the same list: identical
        // samples on the same stream (a cache that survives a mutation is not carried by Clone / new)
        if tree.is_valid() {
            let fresh = if W::IS_FLOAT { None } else { WeightedTreeIndex::<W>::new(model.iter().map(|&m| W::from_m(m)).collect::<Vec<W>>()).ok() };
            let cl = tree.clone();
            // a clone is the same value: equal, printing the same (a Clone that re-derives the subtotals of a float
            // tree differs in its last bits and, one draw in a million, in what it samples)
            if cl != tree || format!("{:?}", cl) != format!("{:?}", tree) {
                viol(ctx, "WeightedTreeIndex", W::NAME, "clone_differs", "history", format!("WeightedTreeIndex<{}> {} after {} mutations: clone() is not equal to the original (== {}, Debug equal {})", W::NAME, show(&model), muts, cl == tree, format!("{:?}", cl) == format!("{:?}", tree)), json!({"kind": "tree", "tree": TreeCase { wt: W::NAME.into(), ops: if ops.len() <= 400 { ops.clone() } else { vec![] } }}));
            }
            let (mut r0, mut r1, mut r2) = (VRng::from_env(seed ^ 0xC1), VRng::from_env(seed ^ 0xC1), VRng::from_env(seed ^ 0xC1));
            for k in 0..256 {
                let a = catch(|| tree.try_sample(&mut r0));
                let b = catch(|| cl.try_sample(&mut r1));
                let c = fresh.as_ref().map(|f| catch(|| f.try_sample(&mut r2)));
                let (fa, fb) = (format!("{:?}", a), format!("{:?}", b));
                if a.is_err() || b.is_err() {
                    break; // panics are judged below
                }
                if fa != fb || c.as_ref().map(|c| format!("{:?}", c) != fa).unwrap_or(false) {
                    viol(ctx, "WeightedTreeIndex", W::NAME, "history_dependent_sample", "history", format!("WeightedTreeIndex<{}> {} after {} mutations (built with sampling between operations: {}): draw {} is {} on the object that lived through the history, {} on its clone{}", W::NAME, show(&model), muts, si % 2 == 1, k, fa, fb, c.map(|c| format!(", {:?} on a fresh build", c)).unwrap_or_default()), json!({"kind": "tree", "tree": TreeCase { wt: W::NAME.into(), ops: if ops.len() <= 400 { ops.clone() } else { vec![] } }}));
                    break;
                }
            }
        }
        let nz = model.iter().filter(|m| !m.is_zero()).count();
        let zero_inner = model.iter().enumerate().any(|(i, m)| m.is_zero() && 2 * i + 1 < model.len());
        if (nz >= 2 && muts >= 1) || zero_inner {
            ctx.nontrivial(hseed(&[crate::rng::hstr(W::NAME), si as u64, 0x10]));
        }
        if zero_inner {
            ctx.class("c10:states_with_zero_weight_inner_node", 1);
        }
        ctx.class(&format!("c10:states:{}", W::NAME), 1);
        // consistency of the state itself (C09's invariant) is assumed here; adversarial streams first
        let mut words = lat.clone();
        if !W::IS_FLOAT {
            let (c, lo) = big_sum(&model);
            if c == 0 && lo <= u64::MAX as u128 {
                words.extend(lattice_for_range(lo as u64));
            }
        } else {
            // the top and bottom 4096 mantissas of the float draw
            for k in 0..4096u64 {
                words.push(k << 12);
                words.push((((1u64 << 52) - 1 - k) << 12) | 0xFFF);
                words.push(k << 41);
                words.push((((1u64 << 23) - 1 - k) << 41) | ((1u64 << 41) - 1));
            }
        }
        // the adversarial phase runs under a deadline: a corrupted tree may make try_sample descend forever
        let (t2, m2, o2, w2) = (tree.clone(), model.clone(), ops.clone(), words.clone());
        let phase = crate::report::deadline(120, move || {
            crate::report::quiet_panics();
            let mut found: Vec<(String, &'static str, String, Value)> = vec![];
            let mut ev = 0u64;
            let mut seen_roots = std::collections::HashSet::new();
            for pos in 0..2u64 {
                for &w in &w2 {
                    let mut rng = VRng::from_env(seed);
                    rng.force(pos, w);
                    rng.begin_call();
                    ev += 1;
                    if let Some((sym, msg)) = tree_sample_check::<W>(&t2, &m2, &mut rng) {
                        // one representative per (symptom, word class) and state; long histories are not stored in full
                        if seen_roots.insert((sym.clone(), crate::streams::word_class(w))) {
                            let case = if o2.len() <= 400 {
                                json!({"kind": "tree_sample", "tree_sample": TreeSampleCase { wt: W::NAME.into(), ops: o2.clone(), pos, word: w, seed }})
                            } else {
                                json!({"kind": "tree_sample_long", "ops": o2.len()})
                            };
                            found.push((sym, crate::streams::word_class(w), msg, case));
                        }
                    }
                }
            }
            (ev, found)
        });
        let ev = match phase {
            Some((ev, found)) => {
                for (sym, cls, msg, case) in found {
                    viol(ctx, "WeightedTreeIndex", W::NAME, &sym, cls, msg, case);
                }
                ev
            }
            None => {
                viol(ctx, "WeightedTreeIndex", W::NAME, "hang", "history", format!("WeightedTreeIndex<{}> {} after {} mutations: try_sample did not return within 120 s", W::NAME, show(&model), muts), json!({"kind": "tree", "tree": TreeCase { wt: W::NAME.into(), ops: if ops.len() <= 400 { ops.clone() } else { vec![] } }}));
                continue;
            }
        };
        ctx.eval(ev);
        ctx.nontrivial_add(ev / 2);
        if !tree.is_valid() {
            ctx.class("c10:invalid_states_checked_for_InsufficientNonZero", 1);
            continue;
        }
        // frequencies vs current weights (float trees: the weights the structure itself reports through get(),
        // since rounding drift of earlier updates is C09's business; states with a negative residue are skipped)
        let len = model.len();
        let probs = if W::IS_FLOAT {
            let g: Vec<f64> = (0..len).map(|i| tree.get(i).to_m().f()).collect();
            if g.iter().any(|x| !(*x >= 0.0)) {
                ctx.class("c10:float_states_skipped_negative_residue", 1);
                continue;
            }
            let t: f64 = g.iter().sum();
            g.iter().map(|x| x / t).collect()
        } else {
            probs_of(&model)
        };
        let (rho_abs, rho_rel) = if W::IS_FLOAT { (2.0 * len as f64 * if W::NAME == "f32" { 2f64.powi(-23) } else { 2f64.powi(-52) }, 8.0 * len as f64 * W::feps()) } else { (2f64.powi(-50), 0.0) };
        let nn = if len > 2000 { n * 4 } else { n };
        let judge = |n: u64, seed: u64| -> Result<Option<(usize, f64, f64, f64)>, String> {
            let counts = sample_counts(&tree, len, n, seed)?;
            if counts[len] > 0 {
                return Err(format!("index >= len returned {} times", counts[len]));
            }
            if !W::IS_FLOAT {
                for (i, w) in model.iter().enumerate() {
                    if w.is_zero() && counts[i] > 0 {
                        return Err(format!("zero-weight index {} returned {} times", i, counts[i]));
                    }
                }
            }
            Ok(freq_reject(&counts[..len], &probs, (n / 16) * 16, rho_abs, rho_rel))
        };
        match judge(nn, seed) {
            Err(m) if m.starts_with("skipped") => ctx.class("c10:frequency_runs_skipped_after_hang", 1),
            Err(m) => viol(ctx, "WeightedTreeIndex", W::NAME, if m.contains("zero-weight") { "zero_weight_index" } else if m.starts_with("hang") { "hang" } else if m.contains("target_weight < self.get(index)") { "panic_assert_target" } else { "panic" }, "random_stream", format!("WeightedTreeIndex<{}> {} after {} mutations: {}", W::NAME, show(&model), muts, m), json!({"kind": "tree_freq", "tree": TreeCase { wt: W::NAME.into(), ops: ops.clone() }, "n": nn})),
            Ok(Some(first)) => {
                if let Ok(Some(second)) = judge(4 * nn, hseed(&[seed, 0xC0F1])) {
                    if second.0 == first.0 {
                        viol(ctx, "WeightedTreeIndex", W::NAME, "frequency", "random_stream", format!("WeightedTreeIndex<{}> {} after {} mutations: index {} observed {:.6e} expected {:.6e} (n={}, confirmed on 4n)", W::NAME, show(&model), muts, second.0, second.1, second.2, nn), json!({"kind": "tree_freq", "tree": TreeCase { wt: W::NAME.into(), ops: ops.clone() }, "n": nn}));
                    }
                }
            }
            Ok(None) => {}
        }
        ctx.sample(seed, || json!({"type": W::NAME, "len": len, "mutations": muts, "weights": show(&model), "n": nn}));
    }
}

/// Integer trees with a small total: the descent is a deterministic function of the uniform target, and
/// rand's `random_range(0..total)` maps the first word v to the target floor(v * total / 2^b) (b = 32 for the
/// 8/16/32-bit types, 64 for the 64-bit ones; no second word is drawn while total <= 2^(b-1)). Forcing the
/// word ceil(t * 2^b / total) for every t in 0..total enumerates all targets exactly once: index i must be
/// returned exactly w_i times. This is the induced law with no sampling error (off-by-one comparisons in the
/// descent, which move 1/total of the mass, are far below the frequency tests' resolution for total >~ 1e3).
fn tree_exact_targets<W: Wt>(ctx: &Ctx, bits: u32) {
    let states = if cfg!(debug_assertions) { 30 } else if ctx.thorough() { 4000 } else { 400 };
    let mut r = BaseRng::from_env(hseed(&[ctx.seed, crate::rng::hstr(W::NAME), 0xE7AC]));
    let mag_of = |m: &M| -> u128 {
        if let M::I { mag, .. } = m {
            *mag
        } else {
            0
        }
    };
    let small = |r: &mut BaseRng| -> M {
        let v = [0u128, 0, 1, 1, 1, 2, 3, 5, 8, 17, 40][r.random_range(0..11)];
        M::I { neg: false, mag: v.min(W::imax() / 2) }
    };
    let cap = W::imax();
    let mut targets_total = 0u64;
    for si in 0..states {
        let len = match si % 5 {
            0 => r.random_range(1..=4usize),
            1 => r.random_range(5..=40usize),
            2 => *[7usize, 8, 9, 15, 16, 17, 31, 32, 33, 63, 64, 65, 127, 129].get(r.random_range(0..14)).unwrap(),
            _ => r.random_range(1..=300usize),
        };
        // keep the total inside the weight type: every generated operation is one the tree accepts
        let mut ops: Vec<Op> = vec![];
        let mut model: Vec<M> = vec![];
        let mut tot = 0u128;
        for _ in 0..len {
            let m = small(&mut r);
            if tot + mag_of(&m) > cap {
                model.push(M::I { neg: false, mag: 0 });
            } else {
                tot += mag_of(&m);
                model.push(m);
            }
        }
        ops.push(Op::New(model.clone()));
        let muts = if si % 3 == 0 { 0 } else { r.random_range(1..=80usize) };
        for _ in 0..muts {
            let tot_now: u128 = model.iter().map(&mag_of).sum();
            match r.random_range(0..6) {
                0 | 1 => {
                    let m = small(&mut r);
                    if tot_now + mag_of(&m) <= cap {
                        ops.push(Op::Push(m));
                        model.push(m);
                    }
                }
                2 => {
                    if model.len() > 1 {
                        ops.push(Op::Pop);
                        model.pop();
                    }
                }
                _ => {
                    if !model.is_empty() {
                        let i = r.random_range(0..model.len());
                        let m = small(&mut r);
                        if tot_now - mag_of(&model[i]) + mag_of(&m) <= cap {
                            ops.push(Op::Update(i, m));
                            model[i] = m;
                        }
                    }
                }
            }
        }
        let (tree, built_model) = match state_from_history::<W>(&ops) {
            Some(Ok(x)) => x,
            _ => continue, // panics while building are reported by c10_one / C09
        };
        if built_model.len() != model.len() {
            continue;
        }
        let total: u128 = model.iter().map(&mag_of).sum();
        if total == 0 || total > (1 << 16) {
            continue;
        }
        let base = VRng::mix(hseed(&[ctx.seed, si as u64, 0xE7AD]));
        let mut counts = vec![0u64; model.len()];
        let mut bad: Option<String> = None;
        let mut inconclusive = false;
        for t in 0..total {
            let v = ((t << bits) + total - 1) / total; // ceil(t * 2^b / total)
            let word = if bits == 32 { (v as u64) << 32 } else { v as u64 };
            let mut rng = base.clone();
            rng.force(0, word);
            rng.begin_call();
            match catch(|| tree.try_sample(&mut rng)) {
                Ok(Ok(i)) if i < counts.len() => {
                    counts[i] += 1;
                    if rng.call_words != 1 {
                        // the enumeration assumes one uniform draw through one word (rand's random_range); a sampler
                        // that draws differently is not judged by it (the frequency tests still apply)
                        inconclusive = true;
                        break;
                    }
                }
                Ok(other) => {
                    bad = Some(format!("target {t}: try_sample returned {:?}", other));
                    break;
                }
                Err(m) => {
                    bad = Some(format!("target {t}: panic: {}", m.lines().next().unwrap_or("")));
                    break;
                }
            }
        }
        if inconclusive {
            ctx.class("c10:exact_targets_not_applicable(draw is not one word)", 1);
            continue;
        }
        targets_total += total as u64;
        ctx.eval(total as u64);
        ctx.nontrivial(hseed(&[crate::rng::hstr(W::NAME), si as u64, 0x11]));
        if bad.is_none() {
            for (i, m) in model.iter().enumerate() {
                let w = mag_of(m) as u64;
                if counts[i] != w {
                    bad = Some(format!("index {i} (weight {w}) is returned for {} of the {total} equally likely targets", counts[i]));
                    break;
                }
            }
        }
        if let Some(msg) = bad {
            viol(ctx, "WeightedTreeIndex", W::NAME, "exact_law", "all_targets", format!("WeightedTreeIndex<{}> {} after {} mutations: {}", W::NAME, show(&model), muts, msg), json!({"kind": "tree", "tree": TreeCase { wt: W::NAME.into(), ops: ops.clone() }}));
        }
    }
    ctx.class(&format!("c10:exact_targets_enumerated:{}", W::NAME), targets_total);
}

/// f32 trees: enumerate all 2^23 targets of the float draw
fn c10_f32_exhaustive(ctx: &Ctx) {
    let trees = if cfg!(debug_assertions) { 4 } else if ctx.thorough() { 300 } else { 24 };
    let mut r = BaseRng::from_env(hseed(&[ctx.seed, 0xF32E]));
    for ti in 0..trees {
        let len = r.random_range(1..=24usize);
        let muts = r.random_range(0..=20usize);
        let ops = gen_history::<f32>(&mut r, len, muts);
        let (tree, model) = match state_from_history::<f32>(&ops) {
            Some(Ok(x)) => x,
            _ => continue,
        };
        if !tree.is_valid() {
            continue;
        }
        let seed = hseed(&[ctx.seed, ti as u64, 0xF32F]);
        let n = model.len();
        let clones: Vec<(u64, WeightedTreeIndex<f32>)> = (0..128u64).map(|b| (b, tree.clone())).collect();
        let counts: Vec<u64> = clones
            .into_par_iter()
            .map(|(b, tree)| {
                let mut c = vec![0u64; n + 1];
                let base = VRng::mix(seed);
                for i in 0..(1u64 << 16) {
                    let v = (b << 16) | i;
                    let w = (v << 41) | (crate::rng::mix(seed ^ v) & ((1u64 << 41) - 1));
                    let mut rng = base.clone();
                    rng.force(0, w);
                    rng.begin_call();
                    if let Some((sym, msg)) = tree_sample_check::<f32>(&tree, &model, &mut rng) {
                        if c[n] < 2 {
                            viol(ctx, "WeightedTreeIndex", "f32", &sym, crate::streams::word_class(w), msg, json!({"kind": "tree_sample", "tree_sample": TreeSampleCase { wt: "f32".into(), ops: ops.clone(), pos: 0, word: w, seed }}));
                        }
                        c[n] += 1;
                    } else if let Ok(Ok(idx)) = catch(|| {
                        let mut rng2 = base.clone();
                        rng2.force(0, w);
                        tree.try_sample(&mut rng2)
                    }) {
                        c[idx.min(n)] += 1;
                    }
                }
                c
            })
            .reduce(|| vec![0u64; n + 1], |mut a, b| {
                for (x, y) in a.iter_mut().zip(b.iter()) {
                    *x += *y;
                }
                a
            });
        ctx.eval(1 << 23);
        ctx.nontrivial_add(1 << 23);
        ctx.class("c10:f32_trees_all_2^23_targets", 1);
        // exact induced law within len*2^-22 + rounding slack, against the weights the tree reports
        let g: Vec<f64> = (0..n).map(|i| tree.get(i) as f64).collect();
        if g.iter().any(|x| !(*x >= 0.0)) {
            ctx.class("c10:float_states_skipped_negative_residue", 1);
            continue;
        }
        let gt: f64 = g.iter().sum();
        let probs: Vec<f64> = g.iter().map(|x| x / gt).collect();
        let total = (1u64 << 23) as f64;
        let slack = n as f64 * 2f64.powi(-22) + 8.0 * n as f64 * (f32::EPSILON as f64);
        for i in 0..n {
            let a = counts[i] as f64 / total;
            if (a - probs[i]).abs() > slack + probs[i] * 8.0 * n as f64 * f32::EPSILON as f64 {
                viol(ctx, "WeightedTreeIndex", "f32", "exact_frequency", "all_2^23_targets", format!("WeightedTreeIndex<f32> {}: index {} has induced probability {:.8e}, weights say {:.8e} (slack {:.2e})", show(&model), i, a, probs[i], slack), json!({"kind": "tree_freq", "tree": TreeCase { wt: "f32".into(), ops: ops.clone() }, "n": 0}));
                break;
            }
        }
    }
}

pub fn run_c10(ctx: &Ctx) {
    for_all_wt!(c10_one(ctx));
    c10_f32_exhaustive(ctx);
    // exact induced law over all targets (integer types whose uniform draw is a single 32- or 64-bit word)
    tree_exact_targets::<u8>(ctx, 32);
    tree_exact_targets::<u16>(ctx, 32);
    tree_exact_targets::<u32>(ctx, 32);
    tree_exact_targets::<i8>(ctx, 32);
    tree_exact_targets::<i16>(ctx, 32);
    tree_exact_targets::<i32>(ctx, 32);
    tree_exact_targets::<u64>(ctx, 64);
    tree_exact_targets::<i64>(ctx, 64);
    // fixed cases: empty and all-zero trees
    let mut rng = VRng::from_env(ctx.seed);
    let e = WeightedTreeIndex::<u32>::new(Vec::<u32>::new()).unwrap();
    if let Some((s, m)) = tree_sample_check::<u32>(&e, &[], &mut rng) {
        viol(ctx, "WeightedTreeIndex", "u32", &s, "fixed", m, json!({"kind": "fixed"}));
    }
    let z = WeightedTreeIndex::<f64>::new(vec![0.0, 0.0, 0.0]).unwrap();
    if let Some((s, m)) = tree_sample_check::<f64>(&z, &[M::F(0.0), M::F(0.0), M::F(0.0)], &mut rng) {
        viol(ctx, "WeightedTreeIndex", "f64", &s, "fixed", m, json!({"kind": "fixed"}));
    }
    ctx.eval(2);
    // single-element trees with a zero weight (fresh, after update, after push onto empty)
    fn one_zero<W: Wt>(ctx: &Ctx) {
        let mut rng = VRng::from_env(ctx.seed ^ 0x51);
        let zero = M::from_zero::<W>();
        let mut cands: Vec<(WeightedTreeIndex<W>, &'static str)> = vec![];
        if let Ok(t) = WeightedTreeIndex::<W>::new(vec![W::from_m(zero)]) {
            cands.push((t, "new([0])"));
        }
        if let Ok(mut t) = WeightedTreeIndex::<W>::new(vec![W::from_m(M::one::<W>()), W::from_m(M::one::<W>())]) {
            t.pop();
            if t.update(0, W::from_m(zero)).is_ok() {
                cands.push((t, "new([1,1]); pop(); update(0, 0)"));
            }
        }
        if let Ok(mut t) = WeightedTreeIndex::<W>::new(Vec::<W>::new()) {
            if t.push(W::from_m(zero)).is_ok() {
                cands.push((t, "new([]); push(0)"));
            }
        }
        for (t, how) in cands {
            ctx.eval(1);
            if let Some((s, m)) = tree_sample_check::<W>(&t, &[zero], &mut rng) {
                viol(ctx, "WeightedTreeIndex", W::NAME, &s, "fixed", format!("{how}: {m}"), json!({"kind": "fixed", "how": how}));
            } else if let Ok(Ok(i)) = catch(|| t.try_sample(&mut rng)) {
                viol(ctx, "WeightedTreeIndex", W::NAME, "zero_weight_index", "fixed", format!("WeightedTreeIndex<{}> {how}: try_sample returned Ok({i}) for a tree whose only weight is zero", W::NAME), json!({"kind": "fixed", "how": how}));
            }
        }
    }
    for_all_wt!(one_zero(ctx));
}

impl M {
    pub fn from_zero<W: Wt>() -> M {
        if W::IS_FLOAT { M::F(0.0) } else { M::int(0) }
    }
    pub fn one<W: Wt>() -> M {
        if W::IS_FLOAT { M::F(1.0) } else { M::int(1) }
    }
}

/// C15: trees reached by update histories must round-trip too (equal value, identical sample sequence)
pub fn serde_tree_histories(ctx: &Ctx) {
    fn one<W: Wt + serde::Serialize + serde::de::DeserializeOwned>(ctx: &Ctx)
    where
        WeightedTreeIndex<W>: serde::Serialize + serde::de::DeserializeOwned,
    {
        let n = if ctx.thorough() { 4000 } else { 300 };
        let mut r = BaseRng::from_env(hseed(&[ctx.seed, crate::rng::hstr(W::NAME), 0xC15]));
        for k in 0..n {
            let len = r.random_range(1..=40usize);
            let muts = r.random_range(1..=40usize);
            let ops = gen_history::<W>(&mut r, len, muts);
            let (tree, model) = match state_from_history::<W>(&ops) {
                Some(Ok(x)) => x,
                _ => continue,
            };
            ctx.eval(1);
            ctx.nontrivial(hseed(&[crate::rng::hstr(W::NAME), k as u64, 0x15]));
            ctx.class(&format!("tree_after_history:{}", W::NAME), 1);
            let fail = |sym: &str, msg: String| {
                viol(ctx, "WeightedTreeIndex", W::NAME, sym, "history", msg, json!({"kind": "tree", "tree": TreeCase { wt: W::NAME.into(), ops: if ops.len() <= 400 { ops.clone() } else { vec![] } }}));
            };
            let back: WeightedTreeIndex<W> = match serde_json::to_value(&tree).map_err(|e| e.to_string()).and_then(|v| serde_json::from_value(v).map_err(|e| e.to_string())) {
                Ok(b) => b,
                Err(e) => {
                    fail("deserialize_failed", format!("WeightedTreeIndex<{}> {} after {} mutations: {}", W::NAME, show(&model), muts, e));
                    continue;
                }
            };
            if back != tree {
                fail("not_equal", format!("WeightedTreeIndex<{}> {} after {} mutations: round-tripped value != original", W::NAME, show(&model), muts));
                continue;
            }
            if tree.is_valid() {
                let seed = hseed(&[ctx.seed, k as u64, 0x5a]);
                let (mut r1, mut r2) = (VRng::from_env(seed), VRng::from_env(seed));
                for i in 0..64 {
                    match (catch(|| tree.try_sample(&mut r1)), catch(|| back.try_sample(&mut r2))) {
                        (Ok(a), Ok(b)) => {
                            if format!("{:?}", a) != format!("{:?}", b) || r1.pos != r2.pos {
                                fail("samples_differ", format!("WeightedTreeIndex<{}> {} after {} mutations: sample {} differs after the round trip", W::NAME, show(&model), muts, i));
                                break;
                            }
                        }
                        _ => break,
                    }
                }
            }
        }
    }
    one::<u8>(ctx);
    one::<u32>(ctx);
    one::<i64>(ctx);
    one::<u64>(ctx); // (u128 values above u64::MAX are not representable in serde_json numbers)
    one::<f32>(ctx);
    one::<f64>(ctx);
}

// ---- replay ----------------------------------------------------------------------------------------

macro_rules! dispatch_wt {
    ($name:expr, $f:ident ( $($arg:expr),* )) => {
        match $name {
            "u8" => $f::<u8>($($arg),*), "u16" => $f::<u16>($($arg),*), "u32" => $f::<u32>($($arg),*), "u64" => $f::<u64>($($arg),*),
            "u128" => $f::<u128>($($arg),*), "usize" => $f::<usize>($($arg),*), "i8" => $f::<i8>($($arg),*), "i16" => $f::<i16>($($arg),*),
            "i32" => $f::<i32>($($arg),*), "i64" => $f::<i64>($($arg),*), "i128" => $f::<i128>($($arg),*), "f32" => $f::<f32>($($arg),*),
            _ => $f::<f64>($($arg),*),
        }
    };
}

/// one sample() of the alias table under a forced word: index in range, weight non-zero, no panic
fn replay_alias_stream<W: Wt>(ctx: &Ctx, ws: &[M], pos: u64, word: u64, seed: u64) {
    let input: Vec<W> = ws.iter().map(|&m| W::from_m(m)).collect();
    let d = match catch(|| WeightedAliasIndex::<W>::new(input)) {
        Ok(Ok(d)) => d,
        _ => return,
    };
    let mut rng = VRng::from_env(seed);
    rng.force(pos, word);
    rng.begin_call();
    let case = json!({"kind": "alias_stream", "alias": AliasCase { wt: W::NAME.into(), ws: ws.to_vec() }, "pos": pos, "word": word, "seed": seed});
    match catch(|| Distribution::sample(&d, &mut rng)) {
        Err(p) => viol(ctx, "WeightedAliasIndex", W::NAME, "panic", crate::streams::word_class(word), format!("WeightedAliasIndex<{}> {} sample panicked: {}", W::NAME, show(ws), p), case),
        Ok(i) => {
            if i >= ws.len() || ws[i].is_zero() {
                viol(ctx, "WeightedAliasIndex", W::NAME, "bad_index", crate::streams::word_class(word), format!("WeightedAliasIndex<{}> {} returned index {} (zero weight or out of range) with word {:#x} at position {}", W::NAME, show(ws), i, word, pos), case);
            }
        }
    }
}

fn replay_alias<W: Wt>(ctx: &Ctx, ws: &[M]) {
    if let Some((sym, msg)) = alias_structural::<W>(ws) {
        viol(ctx, "WeightedAliasIndex", W::NAME, &sym, vec_class::<W>(ws), msg, json!({"kind": "alias", "alias": AliasCase { wt: W::NAME.into(), ws: ws.to_vec() }}));
    }
}
fn replay_tree<W: Wt>(ctx: &Ctx, ops: &[Op]) {
    let mut hs = HistStats::default();
    if let Some((sym, msg)) = run_history::<W>(ops, &mut hs) {
        report_tree::<W>(ctx, ops.to_vec(), &sym, msg);
    }
}
fn replay_tree_sample<W: Wt>(ctx: &Ctx, c: &TreeSampleCase) {
    if let Some(Ok((tree, model))) = state_from_history::<W>(&c.ops) {
        let mut rng = VRng::from_env(c.seed);
        rng.force(c.pos, c.word);
        if let Some((sym, msg)) = tree_sample_check::<W>(&tree, &model, &mut rng) {
            viol(ctx, "WeightedTreeIndex", W::NAME, &sym, crate::streams::word_class(c.word), msg, json!({"kind": "tree_sample", "tree_sample": c}));
        }
    }
}

pub fn replay(ctx: &Ctx, case: &Value) -> bool {
    ctx.eval(1);
    match case["kind"].as_str().unwrap_or("") {
        "alias" => {
            if let Ok(c) = serde_json::from_value::<AliasCase>(case["alias"].clone()) {
                dispatch_wt!(c.wt.as_str(), replay_alias(ctx, &c.ws));
                return true;
            }
            false
        }
        "alias_stream" => {
            if let Ok(c) = serde_json::from_value::<AliasCase>(case["alias"].clone()) {
                let (pos, word, seed) = (case["pos"].as_u64().unwrap_or(0), case["word"].as_u64().unwrap_or(0), case["seed"].as_u64().unwrap_or(0));
                dispatch_wt!(c.wt.as_str(), replay_alias_stream(ctx, &c.ws, pos, word, seed));
                return true;
            }
            false
        }
        "tree" => {
            if let Ok(c) = serde_json::from_value::<TreeCase>(case["tree"].clone()) {
                dispatch_wt!(c.wt.as_str(), replay_tree(ctx, &c.ops));
                return true;
            }
            false
        }
        "tree_sample" => {
            if let Ok(c) = serde_json::from_value::<TreeSampleCase>(case["tree_sample"].clone()) {
                dispatch_wt!(c.wt.as_str(), replay_tree_sample(ctx, &c));
                return true;
            }
            false
        }
        _ => false,
    }
}
