//! Power audit of the law checks (C01 / C02): the *same* plans the checks run (grid, shape lattice and
//! random cells, same sample sizes, same rule) are re-run with a planted defect applied on top of the real
//! rand_distr sampler. A cell counts as *detected* when the rule confirms a rejection. The table answers
//! "would this configuration of the check notice a 1 % mass error / a 3 % scale error in this family?" per
//! family and float type, and so exposes families whose oracle is silently vacuous.
//!
//! defect `mass`  : with probability 2e-2 a draw at or below the reference median is redrawn until it lies
//!                  above the median (moves ~1 % of the mass across the median; leaves both halves' shapes)
//! defect `scale` : continuous laws only: x -> med + 1.03 (x - med)
//! defect `atom`  : continuous laws only: with probability 2e-5 the reference median is returned (a rare constant
//!                  fallback; invisible to T1-T3, must be caught by the atom test T5; informational for f32
//!                  cells, where the output grid itself carries atoms of ~1e-7 and ~19 copies are needed)
//! defect `off1`  : discrete laws only: x -> x + 1 (informational: an off-by-one is statistically invisible
//!                  when every pmf value is below the resolution, i.e. for sd >~ 100 at the quick sizes;
//!                  such errors at the *ends* of the support are C03's business)
use crate::families::{build, Cell};
use crate::laws::{plans_c01, plans_c02, LawPlan};
use crate::refdist::{quantile, reflaw};
use crate::report::Ctx;
use crate::rng::{hseed, BaseRng};
use crate::stats::{check_law, LawJob, Src};
use rand::RngExt;
use rayon::prelude::*;
use serde_json::{json, Value};
use std::collections::BTreeMap;

#[derive(Default, Clone)]
struct Row {
    planned: u64,
    nontrivial: u64,
    mass_run: u64,
    mass_detected: u64,
    scale_run: u64,
    scale_detected: u64,
    off1_run: u64,
    off1_detected: u64,
    atom_run: u64,
    atom_detected: u64,
    missed: Vec<String>,
}

fn perturbed(cell: &Cell, kind: u8, med: f64) -> impl Fn(&mut BaseRng, &mut [f64]) + Sync + '_ {
    move |rng: &mut BaseRng, out: &mut [f64]| {
        // the library's types are only Send + Clone: build one per buffer (4096 draws)
        let s = match build(cell) {
            Ok(s) => s,
            Err(_) => {
                out.iter_mut().for_each(|o| *o = f64::NAN);
                return;
            }
        };
        s.fill(rng, out);
        if kind == 0 {
            let mut one = [0.0f64; 1];
            for o in out.iter_mut() {
                if *o <= med && (rng.random::<u64>() >> 11) as f64 * 2f64.powi(-53) < 2e-2 {
                    for _ in 0..64 {
                        s.fill(rng, &mut one);
                        if one[0] > med {
                            *o = one[0];
                            break;
                        }
                    }
                }
            }
        } else if kind == 1 {
            for o in out.iter_mut() {
                *o = med + (*o - med) * 1.03;
            }
        } else if kind == 2 {
            for o in out.iter_mut() {
                *o += 1.0;
            }
        } else {
            for o in out.iter_mut() {
                if (rng.random::<u64>() >> 11) as f64 * 2f64.powi(-53) < 2e-5 {
                    *o = med;
                }
            }
        }
    }
}

fn ft_name(c: &Cell) -> String {
    if c.fam.int_only() {
        "-".into()
    } else {
        format!("{:?}", c.ft).to_lowercase()
    }
}

/// returns the table as JSON and the number of family×float rows whose detection rate is below 90 %
pub fn run(prop: &str, tier: &str, seed: u64, max_per_family: usize) -> (Value, u64) {
    let ctx = Ctx::new(prop, tier, seed);
    let plans: Vec<LawPlan> = if prop == "C01" { plans_c01(&ctx) } else { plans_c02(&ctx) };
    let mut seen = std::collections::HashSet::new();
    let plans: Vec<LawPlan> = plans.into_iter().filter(|p| seen.insert(p.cell.key())).filter(|p| !ctx.in_known_region(&p.cell)).collect();
    // cap per family×float, keeping the origins mixed (take every k-th)
    let mut by: BTreeMap<String, Vec<LawPlan>> = BTreeMap::new();
    for p in plans {
        by.entry(format!("{}:{}", p.cell.fam.name(), ft_name(&p.cell))).or_default().push(p);
    }
    let mut jobs: Vec<(String, LawPlan)> = vec![];
    for (k, v) in by {
        let step = (v.len() + max_per_family - 1) / max_per_family.max(1);
        for (i, p) in v.into_iter().enumerate() {
            if i % step.max(1) == 0 {
                jobs.push((k.clone(), p));
            }
        }
    }
    let res: Vec<(String, String, bool, Option<bool>, Option<bool>, Option<bool>, Option<bool>)> = jobs
        .par_iter()
        .map(|(k, plan)| {
            let cell = &plan.cell;
            let law = match reflaw(cell) {
                Some(l) => l,
                None => return (k.clone(), cell.key(), false, None, None, None, None),
            };
            if build(cell).is_err() {
                return (k.clone(), cell.key(), false, None, None, None, None);
            }
            // is the unperturbed cell non-trivial under the check's own rule?
            let s = build(cell).unwrap();
            let base = check_law(&LawJob { cell, sampler: Src::Dyn(s.as_ref()), law: &law, n: plan.n, seed: hseed(&[seed, cell.hash64(), 0x1A3]), min_n: 0 });
            if !base.nontrivial {
                return (k.clone(), cell.key(), false, None, None, None, None);
            }
            let med = match quantile(&law, 0.5) {
                Some(m) if m.is_finite() => m,
                _ => return (k.clone(), cell.key(), true, None, None, None, None),
            };
            // the mass defect needs P(X > med) not tiny, or the redraw never succeeds
            let upper = (law.sf)(med);
            let mass = if upper >= 0.05 {
                let f = perturbed(cell, 0, med);
                let o = check_law(&LawJob { cell, sampler: Src::Fn(&f), law: &law, n: plan.n, seed: hseed(&[seed, cell.hash64(), 0xD0]), min_n: 0 });
                Some(!o.confirmed.is_empty())
            } else {
                None
            };
            let scale = if !law.discrete {
                let f = perturbed(cell, 1, med);
                let o = check_law(&LawJob { cell, sampler: Src::Fn(&f), law: &law, n: plan.n, seed: hseed(&[seed, cell.hash64(), 0xD1]), min_n: 0 });
                Some(!o.confirmed.is_empty())
            } else {
                None
            };
            let off1 = if law.discrete && law.lo != law.hi {
                let f = perturbed(cell, 2, med);
                let o = check_law(&LawJob { cell, sampler: Src::Fn(&f), law: &law, n: plan.n, seed: hseed(&[seed, cell.hash64(), 0xD2]), min_n: 0 });
                Some(!o.confirmed.is_empty())
            } else {
                None
            };
            let atom = if !law.discrete && law.lo != law.hi {
                let f = perturbed(cell, 3, med);
                let o = check_law(&LawJob { cell, sampler: Src::Fn(&f), law: &law, n: plan.n, seed: hseed(&[seed, cell.hash64(), 0xD3]), min_n: 0 });
                Some(o.confirmed.iter().any(|r| r.kind.starts_with("T5")))
            } else {
                None
            };
            (k.clone(), cell.key(), true, mass, scale, off1, atom)
        })
        .collect();
    let mut rows: BTreeMap<String, Row> = BTreeMap::new();
    for (k, key, nt, mass, scale, off1, atom) in res {
        let r = rows.entry(k).or_default();
        r.planned += 1;
        if nt {
            r.nontrivial += 1;
        }
        if let Some(d) = mass {
            r.mass_run += 1;
            if d {
                r.mass_detected += 1;
            } else if r.missed.len() < 12 {
                r.missed.push(format!("mass:{key}"));
            }
        }
        if let Some(d) = atom {
            r.atom_run += 1;
            if d {
                r.atom_detected += 1;
            }
        }
        if let Some(d) = off1 {
            r.off1_run += 1;
            if d {
                r.off1_detected += 1;
            }
        }
        if let Some(d) = scale {
            r.scale_run += 1;
            if d {
                r.scale_detected += 1;
            } else if r.missed.len() < 12 {
                r.missed.push(format!("scale:{key}"));
            }
        }
    }
    let mut weak = 0u64;
    let _ = ();
    let mut table = serde_json::Map::new();
    for (k, r) in &rows {
        let rate = |d: u64, n: u64| if n == 0 { 1.0 } else { d as f64 / n as f64 };
        if r.nontrivial == 0 || rate(r.mass_detected, r.mass_run) < 0.9 || rate(r.scale_detected, r.scale_run) < 0.9 {
            weak += 1;
        }
        table.insert(
            k.clone(),
            json!({"cells": r.planned, "nontrivial": r.nontrivial, "mass_defect_run": r.mass_run, "mass_defect_detected": r.mass_detected,
                   "scale_defect_run": r.scale_run, "scale_defect_detected": r.scale_detected,
                   "off_by_one_run": r.off1_run, "off_by_one_detected": r.off1_detected,
                   "atom_defect_run": r.atom_run, "atom_defect_detected": r.atom_detected, "missed_examples": r.missed}),
        );
    }
    (json!({"property": prop, "tier": tier, "seed": seed, "max_cells_per_family_float": max_per_family, "rows": table, "rows_below_90_percent": weak}), weak)
}
