//! Statistical decision rule (DESIGN §3.2): finite-sample, distribution-free tests with a proved
//! false-alarm bound, float-resolution null model, and confirmation on an independent stream.
use crate::families::{Cell, Fam, Ft, Sampler};
use crate::refdist::{quantile, quantile_int, RefLaw};
use crate::rng::{hseed, BaseRng};
use rayon::prelude::*;
use serde::Serialize;

/// ln(2T/alpha) with T = 1e8 tests per invocation (upper bound, checked by callers) and alpha = 1e-9.
pub const L_THRESH: f64 = 39.84; // ln(2e8/1e-9) = 39.83
pub const T_BOUND: u64 = 100_000_000;

pub const QUANTILE_PS: [f64; 35] = [
    1e-6, 1e-5, 1e-4, 1e-3, 0.005, 0.01, 0.025, 0.05, 0.1, 0.15, 0.2, 0.25, 0.3, 0.35, 0.4, 0.45, 0.5, 0.55, 0.6,
    0.65, 0.7, 0.75, 0.8, 0.85, 0.9, 0.95, 0.975, 0.99, 0.995, 0.999,
    // upper tail expressed through q = 1-p below
    -1e-4, -1e-5, -1e-6, -0.0, -0.0,
];

#[derive(Clone, Debug)]
pub struct Slack {
    pub ft: Ft,
    /// relative output-rounding allowance (8 eps) or 0 for integer-typed outputs
    pub delta_rel: f64,
    pub loc: f64,
    /// integer-valued float outputs: δ applies only above this magnitude (2^mantissa)
    pub int_above: Option<f64>,
    pub rho_abs: f64,
    pub rho_rel: f64,
}

impl Slack {
    pub fn for_cell(cell: &Cell, law: &RefLaw) -> Slack {
        let ft = cell.ft;
        let eps = ft.eps();
        let float_out = !cell.fam.int_only();
        let gran = match (float_out, ft) {
            (true, Ft::F32) => 2.0 * (2.0f64).powi(-23),
            _ => 2.0 * (2.0f64).powi(-52),
        };
        let (delta_rel, int_above) = if law.discrete {
            if float_out {
                (8.0 * eps, Some(1.0 / eps))
            } else {
                (0.0, None)
            }
        } else {
            (8.0 * eps, None)
        };
        Slack {
            ft,
            delta_rel,
            loc: law.loc,
            int_above,
            rho_abs: gran + law.rho_abs_extra,
            rho_rel: (16.0 * eps * law.kappa.max(1.0)).min(0.5),
        }
    }
    pub fn delta(&self, e: f64) -> f64 {
        if self.delta_rel == 0.0 {
            return 0.0;
        }
        if let Some(th) = self.int_above {
            if e.abs() < th {
                return 0.0;
            }
            return self.delta_rel * e.abs();
        }
        self.delta_rel * e.abs().max(self.loc.abs()).max(self.ft.min_pos())
    }
}

#[derive(Clone, Debug, Serialize)]
pub struct EdgeB {
    pub x: f64,
    /// nominal P(X<=x), P(X>x)
    pub p: f64,
    pub q: f64,
    pub p_lo: f64,
    pub p_hi: f64,
    pub q_lo: f64,
    pub q_hi: f64,
}

pub fn edge_bounds(law: &RefLaw, sl: &Slack, x: f64) -> EdgeB {
    let d = sl.delta(x);
    let (xm, xp) = (x - d, x + d);
    let p = (law.cdf)(x);
    let q = (law.sf)(x);
    // upper bound on P(X<=x): law at x+δ
    let (cu, su) = ((law.cdf)(xp), (law.sf)(xp));
    let (p_hi, q_lo) = if cu <= 0.5 {
        let ph = (cu * (1.0 + sl.rho_rel) + sl.rho_abs).min(1.0);
        (ph, 1.0 - ph)
    } else {
        let ql = (su * (1.0 - sl.rho_rel) - sl.rho_abs).max(0.0);
        (1.0 - ql, ql)
    };
    let (cl, sl_) = ((law.cdf)(xm), (law.sf)(xm));
    let (p_lo, q_hi) = if cl <= 0.5 {
        let pl = (cl * (1.0 - sl.rho_rel) - sl.rho_abs).max(0.0);
        (pl, 1.0 - pl)
    } else {
        let qh = (sl_ * (1.0 + sl.rho_rel) + sl.rho_abs).min(1.0);
        (1.0 - qh, qh)
    };
    EdgeB {
        x,
        p,
        q,
        p_lo,
        p_hi,
        q_lo,
        q_hi,
    }
}

/// Edges for a cell (sorted, unique): quantile edges, structural edges, discrete atoms.
pub fn build_edges(law: &RefLaw, ft: Ft, float_out: bool) -> Vec<f64> {
    let mut v: Vec<f64> = vec![];
    let ps: Vec<f64> = vec![
        1e-6, 1e-5, 1e-4, 1e-3, 0.005, 0.01, 0.025, 0.05, 0.1, 0.15, 0.2, 0.25, 0.3, 0.35, 0.4, 0.45, 0.5, 0.55,
        0.6, 0.65, 0.7, 0.75, 0.8, 0.85, 0.9, 0.95, 0.975, 0.99, 0.995, 0.999,
        1.0 - 1e-4, 1.0 - 1e-5, 1.0 - 1e-6,
    ];
    for &p in &ps {
        let x = if law.discrete { quantile_int(law, p) } else { quantile(law, p) };
        if let Some(x) = x {
            if x.is_finite() {
                v.push(x);
            }
        }
    }
    for &e in &law.extra_edges {
        v.push(e);
    }
    if law.discrete {
        for &a in &law.atoms {
            v.push(a);
            if a - 1.0 >= law.lo {
                v.push(a - 1.0);
            }
        }
    }
    // representability in the output type
    let (mn, mx) = if float_out {
        (ft.min_pos() * 256.0, ft.max() / 256.0)
    } else {
        (0.0, u64::MAX as f64 / 2.0)
    };
    v.retain(|&e| e.is_finite() && (e == 0.0 || (e.abs() >= mn && e.abs() <= mx)));
    // edges must be exactly representable comparisons: keep as f64 (outputs are widened exactly)
    v.sort_by(|a, b| a.partial_cmp(b).unwrap());
    v.dedup();
    // drop edges strictly outside the support (nothing to test there; C03 owns the support clause)
    v.retain(|&e| e >= law.lo && e <= law.hi);
    v
}

#[derive(Clone, Debug, Default)]
pub struct Hist {
    /// counts[i] = #{ edges[i-1] < x <= edges[i] }, counts[K] = #{ x > edges[K-1] }
    pub counts: Vec<u64>,
    pub nan: u64,
    pub n: u64,
    pub min: f64,
    pub max: f64,
}

const CHUNK: u64 = 1 << 17;

pub fn histogram(s: &dyn Sampler, edges: &[f64], n: u64, seed: u64) -> Hist {
    // one clone of the distribution per worker: the library's types are only required to be Send + Clone
    let workers = rayon::current_num_threads().max(1) * 4;
    let chunks = (n + CHUNK - 1) / CHUNK;
    let clones: Vec<(u64, Box<dyn Sampler>)> = (0..(workers as u64).min(chunks.max(1))).map(|w| (w, s.clone_box())).collect();
    let nw = clones.len() as u64;
    let k = edges.len();
    let empty = || Hist { counts: vec![0; k + 1], nan: 0, n: 0, min: f64::INFINITY, max: f64::NEG_INFINITY };
    clones
        .into_par_iter()
        .map(|(w, d)| {
            let mut acc = empty();
            let mut c = w;
            while c < chunks {
                let h = histogram_chunk(&|rng: &mut BaseRng, out: &mut [f64]| d.fill(rng, out), edges, n, seed, c, chunks);
                merge_hist(&mut acc, &h);
                c += nw;
            }
            acc
        })
        .reduce(empty, |mut a, b| {
            merge_hist(&mut a, &b);
            a
        })
}

fn merge_hist(a: &mut Hist, b: &Hist) {
    for (x, y) in a.counts.iter_mut().zip(b.counts.iter()) {
        *x += *y;
    }
    a.nan += b.nan;
    a.n += b.n;
    a.min = a.min.min(b.min);
    a.max = a.max.max(b.max);
}

/// one chunk (index c of `chunks`): a pure function of (seed, c)
fn histogram_chunk(fill: &dyn Fn(&mut BaseRng, &mut [f64]), edges: &[f64], n: u64, seed: u64, c: u64, chunks: u64) -> Hist {
    let k = edges.len();
    let m = if c == chunks - 1 { n - c * CHUNK } else { CHUNK };
    let mut rng = BaseRng::from_env(hseed(&[seed, c, 0x5157]));
    let mut h = Hist { counts: vec![0; k + 1], nan: 0, n: m, min: f64::INFINITY, max: f64::NEG_INFINITY };
    let mut buf = vec![0.0f64; 4096];
    let mut left = m as usize;
    while left > 0 {
        let b = left.min(4096);
        fill(&mut rng, &mut buf[..b]);
        for &x in &buf[..b] {
            if x.is_nan() {
                h.nan += 1;
                continue;
            }
            if x < h.min {
                h.min = x;
            }
            if x > h.max {
                h.max = x;
            }
            let i = edges.partition_point(|&e| e < x);
            h.counts[i] += 1;
        }
        left -= b;
    }
    h
}

/// same, for any bulk sampling closure (used by the selftest's synthetic samplers)
pub fn histogram_with(fill: &(dyn Fn(&mut BaseRng, &mut [f64]) + Sync), edges: &[f64], n: u64, seed: u64) -> Hist {
    let chunks = (n + CHUNK - 1) / CHUNK;
    let k = edges.len();
    (0..chunks)
        .into_par_iter()
        .map(|c| {
            let m = if c == chunks - 1 { n - c * CHUNK } else { CHUNK };
            let mut rng = BaseRng::from_env(hseed(&[seed, c, 0x5157]));
            let mut h = Hist {
                counts: vec![0; k + 1],
                nan: 0,
                n: m,
                min: f64::INFINITY,
                max: f64::NEG_INFINITY,
            };
            let mut buf = vec![0.0f64; 4096];
            let mut left = m as usize;
            while left > 0 {
                let b = left.min(4096);
                fill(&mut rng, &mut buf[..b]);
                for &x in &buf[..b] {
                    if x.is_nan() {
                        h.nan += 1;
                        continue;
                    }
                    if x < h.min {
                        h.min = x;
                    }
                    if x > h.max {
                        h.max = x;
                    }
                    let i = edges.partition_point(|&e| e < x);
                    h.counts[i] += 1;
                }
                left -= b;
            }
            h
        })
        .reduce(
            || Hist {
                counts: vec![0; k + 1],
                nan: 0,
                n: 0,
                min: f64::INFINITY,
                max: f64::NEG_INFINITY,
            },
            |mut a, b| {
                for (x, y) in a.counts.iter_mut().zip(b.counts.iter()) {
                    *x += *y;
                }
                a.nan += b.nan;
                a.n += b.n;
                a.min = a.min.min(b.min);
                a.max = a.max.max(b.max);
                a
            },
        )
}

fn xlnxy(x: f64, y: f64) -> f64 {
    if x <= 0.0 {
        0.0
    } else if y <= 0.0 {
        f64::INFINITY
    } else {
        x * (x / y).ln()
    }
}

/// KL( Bern(a) || Bern(p) ) with q = 1-p given separately
pub fn kl_bern(a: f64, p: f64, q: f64) -> f64 {
    xlnxy(a, p) + xlnxy(1.0 - a, q)
}

#[derive(Clone, Debug, Serialize, PartialEq)]
pub struct Rejection {
    /// "T1" cumulative edge, "T2" bin, "T3" global, "NaN"
    pub kind: String,
    pub idx: usize,
    /// +1 observed too many, -1 too few, 0 n/a
    pub dir: i8,
    pub at: f64,
    pub observed: f64,
    pub allowed_lo: f64,
    pub allowed_hi: f64,
    pub stat: f64,
}

impl Rejection {
    pub fn same_stat(&self, o: &Rejection) -> bool {
        self.kind == o.kind && self.idx == o.idx && self.dir == o.dir
    }
}

/// Solve (K-1)(t - 1 - ln t) = l for t >= 1.
fn agrawal_t(k1: f64, l: f64) -> f64 {
    let target = l / k1;
    let (mut lo, mut hi) = (1.0f64, 2.0f64);
    while hi - 1.0 - hi.ln() < target {
        hi *= 2.0;
    }
    for _ in 0..200 {
        let mid = 0.5 * (lo + hi);
        if mid - 1.0 - mid.ln() < target {
            lo = mid;
        } else {
            hi = mid;
        }
    }
    hi
}

pub struct TestOpts {
    pub t1: bool,
    pub t2: bool,
    pub t3: bool,
    pub l: f64,
}
impl Default for TestOpts {
    fn default() -> Self {
        TestOpts {
            t1: true,
            t2: true,
            t3: true,
            l: L_THRESH,
        }
    }
}

/// Apply T1/T2/T3 to a histogram. `eb` are the edge bounds aligned with the histogram's edges.
pub fn run_tests(eb: &[EdgeB], h: &Hist, opts: &TestOpts) -> Vec<Rejection> {
    let mut out = vec![];
    let n = h.n as f64;
    if h.nan > 0 {
        out.push(Rejection {
            kind: "NaN".into(),
            idx: 0,
            dir: 1,
            at: f64::NAN,
            observed: h.nan as f64,
            allowed_lo: 0.0,
            allowed_hi: 0.0,
            stat: f64::INFINITY,
        });
    }
    if h.n == 0 {
        return out;
    }
    let k = eb.len();
    let valid = (h.n - h.nan) as f64;
    let _ = valid;
    // T1
    if opts.t1 {
        let mut cum = 0u64;
        for i in 0..k {
            cum += h.counts[i];
            let a = cum as f64 / n;
            let e = &eb[i];
            if a > e.p_hi {
                let st = n * kl_bern(a, e.p_hi, e.q_lo);
                if st > opts.l {
                    out.push(Rejection {
                        kind: "T1".into(),
                        idx: i,
                        dir: 1,
                        at: e.x,
                        observed: a,
                        allowed_lo: e.p_lo,
                        allowed_hi: e.p_hi,
                        stat: st,
                    });
                }
            } else if a < e.p_lo {
                let st = n * kl_bern(a, e.p_lo, e.q_hi);
                if st > opts.l {
                    out.push(Rejection {
                        kind: "T1".into(),
                        idx: i,
                        dir: -1,
                        at: e.x,
                        observed: a,
                        allowed_lo: e.p_lo,
                        allowed_hi: e.p_hi,
                        stat: st,
                    });
                }
            }
        }
    }
    // bin probability bounds
    let mut b_lo = vec![0.0; k + 1];
    let mut b_hi = vec![0.0; k + 1];
    for i in 0..=k {
        // bin i = (edge[i-1], edge[i]]
        let (lo_e, hi_e) = (if i == 0 { None } else { Some(&eb[i - 1]) }, if i == k { None } else { Some(&eb[i]) });
        let (bl, bh) = match (lo_e, hi_e) {
            (None, None) => (1.0, 1.0),
            (None, Some(h)) => (h.p_lo, h.p_hi),
            (Some(l), None) => (l.q_lo, l.q_hi),
            (Some(l), Some(h)) => {
                if l.p_hi > 0.5 {
                    // work with survival values
                    ((l.q_lo - h.q_hi).max(0.0), (l.q_hi - h.q_lo).max(0.0))
                } else {
                    ((h.p_lo - l.p_hi).max(0.0), (h.p_hi - l.p_lo).max(0.0))
                }
            }
        };
        b_lo[i] = bl.clamp(0.0, 1.0);
        b_hi[i] = bh.clamp(0.0, 1.0);
    }
    if opts.t2 {
        for i in 0..=k {
            let a = h.counts[i] as f64 / n;
            let at = if i < k { eb[i].x } else { f64::INFINITY };
            if a > b_hi[i] {
                let st = n * kl_bern(a, b_hi[i], 1.0 - b_hi[i]);
                if st > opts.l {
                    out.push(Rejection {
                        kind: "T2".into(),
                        idx: i,
                        dir: 1,
                        at,
                        observed: a,
                        allowed_lo: b_lo[i],
                        allowed_hi: b_hi[i],
                        stat: st,
                    });
                }
            } else if a < b_lo[i] {
                let st = n * kl_bern(a, b_lo[i], 1.0 - b_lo[i]);
                if st > opts.l {
                    out.push(Rejection {
                        kind: "T2".into(),
                        idx: i,
                        dir: -1,
                        at,
                        observed: a,
                        allowed_lo: b_lo[i],
                        allowed_hi: b_hi[i],
                        stat: st,
                    });
                }
            }
        }
    }
    if opts.t3 && k >= 2 {
        // generalised-KL distance to the null box: a sound lower bound on inf_{p in null} KL(phat||p)
        let mut st = 0.0;
        for i in 0..=k {
            let a = h.counts[i] as f64 / n;
            let b = a.clamp(b_lo[i], b_hi[i]);
            if a != b {
                st += xlnxy(a, b) - a + b;
            }
        }
        let kk = k as f64; // K-1 with K = k+1 bins
        let t = agrawal_t(kk, opts.l);
        if n * st > kk * t {
            out.push(Rejection {
                kind: "T3".into(),
                idx: 0,
                dir: 0,
                at: f64::NAN,
                observed: n * st,
                allowed_lo: 0.0,
                allowed_hi: kk * t,
                stat: n * st,
            });
        }
    }
    out
}

#[derive(Clone, Debug, Serialize)]
pub struct LawOutcome {
    pub cell: String,
    pub n: u64,
    pub edges: usize,
    pub nontrivial: bool,
    pub degenerate_reason: Option<String>,
    pub rejections_first: Vec<Rejection>,
    /// rejections that were confirmed on the independent 4n stream
    pub confirmed: Vec<Rejection>,
    pub min_sample: f64,
    pub max_sample: f64,
    pub rho_rel: f64,
    pub rho_abs: f64,
    pub ref_note: String,
    /// draws examined by the atom test T5 (0 = not run)
    pub atom_draws: u64,
}

/// where the samples come from: a library distribution (cloned per worker) or a harness closure (selftest)
pub enum Src<'a> {
    Dyn(&'a dyn Sampler),
    Fn(&'a (dyn Fn(&mut BaseRng, &mut [f64]) + Sync)),
}
impl Src<'_> {
    /// m raw draws (single thread; used by the atom test)
    pub fn raw(&self, m: usize, seed: u64) -> Vec<f64> {
        let mut rng = BaseRng::from_env(hseed(&[seed, 0xA70]));
        let mut v = vec![0.0f64; m];
        for chunk in v.chunks_mut(4096) {
            match self {
                Src::Dyn(s) => s.fill(&mut rng, chunk),
                Src::Fn(f) => f(&mut rng, chunk),
            }
        }
        v
    }
    pub fn hist(&self, edges: &[f64], n: u64, seed: u64) -> Hist {
        match self {
            Src::Dyn(s) => histogram(*s, edges, n, seed),
            Src::Fn(f) => histogram_with(*f, edges, n, seed),
        }
    }
}

pub struct LawJob<'a> {
    pub cell: &'a Cell,
    pub sampler: Src<'a>,
    pub law: &'a RefLaw,
    pub n: u64,
    pub seed: u64,
    pub min_n: u64,
}

/// ln of the per-cell false-alarm budget of the atom test (1e-9 over at most 1e6 cells per invocation)
pub const LN_ALPHA_ATOM: f64 = -34.54;

/// T5, atom test for continuous laws: no single output value may occur more often than the reference law
/// (with its slack) allows for the cell [prev(x) - δ, x + δ] of the output grid. For a value x with allowed
/// mass p_hi and c occurrences among m draws the criterion is  m (m p_hi)^(c-1) / c! <= α_cell : since
/// P(count(x) >= c) <= (m p_x)^c / c! = p_x · m (m p_x)^(c-1) / c!, summing over all x bounds the per-cell
/// false-alarm probability by α_cell Σ p_x = α_cell whenever p_x <= p_hi(x). Catches rare constant
/// fallbacks ("loop bounded, return the mean") whose mass is far below the resolution of T1–T3.
pub fn atom_mass_hi(law: &RefLaw, sl: &Slack, ft: Ft, x: f64) -> f64 {
    let prev = ft.next_down(x);
    let (a, b) = (edge_bounds(law, sl, prev), edge_bounds(law, sl, x));
    let via_p = b.p_hi - a.p_lo;
    let via_q = a.q_hi - b.q_lo;
    via_p.min(via_q).max(0.0).min(1.0)
}

fn ln_factorial(c: u64) -> f64 {
    (2..=c).map(|k| (k as f64).ln()).sum()
}

/// criterion value: ln( m (m p)^(c-1) / c! ); reject when <= LN_ALPHA_ATOM
pub fn atom_stat(c: u64, m: u64, p_hi: f64) -> f64 {
    let mf = m as f64;
    mf.ln() + (c as f64 - 1.0) * (mf * p_hi.max(1e-300)).ln() - ln_factorial(c)
}

/// runs of identical finite values with at least `min_c` occurrences (value, count), most frequent first
pub fn atom_candidates(vals: &[f64], min_c: u64) -> Vec<(f64, u64)> {
    let mut keys: Vec<u64> = vals
        .iter()
        .filter(|x| x.is_finite())
        .map(|&x| {
            let b = (x + 0.0).to_bits();
            // order-preserving map of f64 bits
            if b >> 63 == 1 { !b } else { b | (1u64 << 63) }
        })
        .collect();
    keys.sort_unstable();
    let mut out = vec![];
    let mut i = 0;
    while i < keys.len() {
        let mut j = i + 1;
        while j < keys.len() && keys[j] == keys[i] {
            j += 1;
        }
        if (j - i) as u64 >= min_c {
            let k = keys[i];
            let b = if k >> 63 == 1 { k & !(1u64 << 63) } else { !k };
            out.push((f64::from_bits(b), (j - i) as u64));
        }
        i = j;
    }
    out.sort_by(|a, b| b.1.cmp(&a.1));
    out.truncate(4096);
    out
}

/// smallest count that can reject at all when every output-grid cell is allowed at least `p_floor`
pub fn atom_min_count(m: u64, p_floor: f64) -> u64 {
    let mut c = 2u64;
    while c < 10_000 && atom_stat(c, m, p_floor) > LN_ALPHA_ATOM {
        c += 1;
    }
    c
}

pub fn atom_rejections(law: &RefLaw, sl: &Slack, ft: Ft, cands: &[(f64, u64)], m: u64) -> Vec<Rejection> {
    let mut r = vec![];
    for &(x, c) in cands {
        let p_hi = atom_mass_hi(law, sl, ft, x);
        let st = atom_stat(c, m, p_hi);
        if std::env::var("VERIF_DEBUG_ATOM").is_ok() {
            eprintln!("atom cand x={x:e} c={c} m={m} p_hi={p_hi:e} stat={st:.2}");
        }
        if c as f64 / m as f64 > p_hi && st <= LN_ALPHA_ATOM {
            r.push(Rejection { kind: "T5:atom".into(), idx: (x.to_bits() % 0x7fff_ffff) as usize, dir: 1, at: x, observed: c as f64 / m as f64, allowed_lo: 0.0, allowed_hi: p_hi, stat: -st });
        }
    }
    r
}

pub fn check_law(job: &LawJob) -> LawOutcome {
    let cell = job.cell;
    let float_out = !cell.fam.int_only();
    let sl = Slack::for_cell(cell, job.law);
    let edges = build_edges(job.law, cell.ft, float_out);
    let eb: Vec<EdgeB> = edges.iter().map(|&x| edge_bounds(job.law, &sl, x)).collect();
    let h = job.sampler.hist(&edges, job.n, job.seed);
    let opts = TestOpts::default();
    let first = run_tests(&eb, &h, &opts);
    let mut confirmed = vec![];
    if !first.is_empty() {
        let h2 = job.sampler.hist(&edges, job.n * 4, hseed(&[job.seed, 0xC0F1]));
        let second = run_tests(&eb, &h2, &opts);
        for r in &second {
            if first.iter().any(|f| f.same_stat(r)) {
                confirmed.push(r.clone());
            }
        }
    }
    // T5 atom test (continuous, non-degenerate references only)
    let mut first = first;
    let mut atom_draws = 0u64;
    if !job.law.discrete && job.law.lo != job.law.hi && job.n >= (1 << 20) {
        let m: usize = if job.n >= 50_000_000 { 1 << 23 } else if job.n >= 8_000_000 { 1 << 21 } else { 1 << 20 };
        atom_draws = m as u64;
        let raw = job.sampler.raw(m, job.seed);
        // every value frequent enough to be rejectable is examined (f32 cells have many legitimately repeated
        // values; ranking by raw count alone would hide an atom of 20 copies behind them)
        let cands = atom_candidates(&raw, atom_min_count(m as u64, sl.rho_abs));
        let rej = atom_rejections(job.law, &sl, cell.ft, &cands, m as u64);
        if !rej.is_empty() {
            // confirm on an independent stream of 4m draws: count exact matches of the flagged values
            let raw2 = job.sampler.raw(4 * m, hseed(&[job.seed, 0xC0F1]));
            let c2: Vec<(f64, u64)> = rej.iter().map(|r| (r.at, raw2.iter().filter(|&&v| v == r.at).count() as u64)).collect();
            let rej2 = atom_rejections(job.law, &sl, cell.ft, &c2, 4 * m as u64);
            for r in &rej2 {
                if rej.iter().any(|f| f.same_stat(r)) {
                    confirmed.push(r.clone());
                }
            }
            first.extend(rej);
        }
    }
    // non-triviality (DESIGN §3.2 / C02)
    let mut reason = None;
    if job.n < job.min_n {
        reason = Some(format!("n {} below tier minimum {}", job.n, job.min_n));
    } else if sl.rho_rel > 0.05 || sl.rho_abs > 0.01 {
        // the allowance granted to the reference exceeds the size of a defect worth finding
        reason = Some(format!("slack too loose: rho_rel={:e} rho_abs={:e}", sl.rho_rel, sl.rho_abs));
    } else if job.law.discrete {
        let big = (0..=eb.len())
            .filter(|&i| {
                let pl = if i == 0 { 0.0 } else { eb[i - 1].p };
                let ph = if i == eb.len() { 1.0 } else { eb[i].p };
                (ph - pl) * job.n as f64 >= 1000.0
            })
            .count();
        if big < 3 {
            let constant = job.law.lo == job.law.hi;
            if !constant {
                reason = Some(format!("only {} bins with expected count >= 1000", big));
            }
        }
    } else {
        if eb.len() < 30 {
            reason = Some(format!("only {} representable edges", eb.len()));
        } else {
            // every edge with p >= 100/n saw a sample on each side
            let mut cum = 0u64;
            for i in 0..eb.len() {
                cum += h.counts[i];
                let pmin = eb[i].p.min(eb[i].q);
                if pmin >= 100.0 / job.n as f64 && (cum == 0 || cum == h.n) {
                    reason = Some(format!("edge {} (p={:e}) has no sample on one side", eb[i].x, eb[i].p));
                    break;
                }
            }
        }
    }
    let _ = Fam::Normal;
    LawOutcome {
        cell: cell.key(),
        n: job.n,
        edges: eb.len(),
        nontrivial: reason.is_none(),
        degenerate_reason: reason,
        rejections_first: first,
        confirmed,
        min_sample: h.min,
        max_sample: h.max,
        rho_rel: sl.rho_rel,
        rho_abs: sl.rho_abs,
        ref_note: job.law.note.clone(),
        atom_draws,
    }
}
