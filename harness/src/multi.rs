//! C11 (Dirichlet) and C12 (unit geometry): structural predicates per sample + law tests (DESIGN §5).
use crate::envelope::dirichlet_alphas;
use crate::families::{Cell, Fam, Ft};
use crate::refdist::reflaw;
use crate::report::{catch, Ctx, Violation};
use crate::rng::{hseed, BaseRng, VRng};
use crate::stats::{build_edges, edge_bounds, kl_bern, run_tests, EdgeB, Hist, Slack, TestOpts, L_THRESH};
use rand::RngExt;
use rand_distr::multi::{Dirichlet, MultiDistribution};
use rand_distr::{Distribution, UnitBall, UnitCircle, UnitDisc, UnitSphere};
use rayon::prelude::*;
use serde_json::{json, Value};

struct Stat {
    name: String,
    /// indices (i, j): j == usize::MAX => marginal x_i, else x_i / (x_i + x_j)
    i: usize,
    j: usize,
    edges: Vec<f64>,
    eb: Vec<EdgeB>,
}

trait DF: num_traits::Float + Default + Send + Sync + std::fmt::Debug + 'static {
    const FT: Ft;
    fn f(self) -> f64;
    fn bits(self) -> u64;
}
impl DF for f32 {
    const FT: Ft = Ft::F32;
    fn f(self) -> f64 {
        self as f64
    }
    fn bits(self) -> u64 {
        self.to_bits() as u64
    }
}
impl DF for f64 {
    const FT: Ft = Ft::F64;
    fn f(self) -> f64 {
        self
    }
    fn bits(self) -> u64 {
        self.to_bits()
    }
}

/// merge all bins below the first edge >= cutoff (absolute resolution of a float simplex component)
fn truncate_low(eb: &[EdgeB], h: &Hist, cutoff: f64) -> (Vec<EdgeB>, Hist) {
    let cut = eb.iter().position(|e| e.x >= cutoff).unwrap_or(eb.len());
    if cut == 0 || cut >= eb.len() {
        return (eb.to_vec(), Hist { counts: h.counts.clone(), nan: h.nan, n: h.n, min: h.min, max: h.max });
    }
    let mut counts = vec![h.counts[..=cut].iter().sum::<u64>()];
    counts.extend_from_slice(&h.counts[cut + 1..]);
    (eb[cut..].to_vec(), Hist { counts, nan: h.nan, n: h.n, min: h.min, max: h.max })
}

fn dviol(ctx: &Ctx, ft: Ft, alpha: &[f64], sym: &str, trig: &str, what: String) {
    let cell = Cell::new(Fam::Dirichlet, ft, alpha);
    ctx.violation(Violation {
        property: ctx.property.clone(),
        family: "Dirichlet".into(),
        float: if ft == Ft::F32 { "f32".into() } else { "f64".into() },
        symptom: sym.into(),
        trigger: trig.into(),
        what,
        case: json!({"kind": "dirichlet", "cell": cell}),
    });
}

fn dirichlet_one<F: DF>(ctx: &Ctx, alpha: &[f64], n: u64, seed: u64)
where
    Dirichlet<F>: MultiDistribution<F> + Distribution<Vec<F>> + Send + Clone,
    rand_distr::StandardNormal: Distribution<F>,
    rand_distr::Exp1: Distribution<F>,
    rand_distr::Open01: Distribution<F>,
{
    let ft = F::FT;
    let a: Vec<F> = alpha.iter().map(|&x| F::from(x).unwrap()).collect();
    let d = match Dirichlet::<F>::new(&a) {
        Ok(d) => d,
        Err(e) => {
            dviol(ctx, ft, alpha, "ctor_rejects_envelope_cell", "cell", format!("Dirichlet::new({:?}) = Err({:?}) inside E", alpha, e));
            return;
        }
    };
    let len = alpha.len();
    let a0: f64 = alpha.iter().sum();
    // statistics
    let mut r = BaseRng::from_env(hseed(&[seed, 0x57A7]));
    let mut pairs: Vec<(usize, usize)> = vec![];
    for i in 0..len.min(8) {
        pairs.push((i, usize::MAX));
    }
    for _ in 0..8 {
        pairs.push((r.random_range(0..len), usize::MAX));
    }
    for i in 0..(len - 1).min(8) {
        pairs.push((i, i + 1));
    }
    pairs.push((0, len - 1));
    for _ in 0..8 {
        let i = r.random_range(0..len);
        let j = r.random_range(0..len);
        if i != j {
            pairs.push((i, j));
        }
    }
    pairs.sort();
    pairs.dedup();
    // ratio statistics need both components representable: P(Gamma(alpha) < MIN_POSITIVE*2^8) <= 1e-9 (principle P2 of E)
    let min_alpha_ratio = 9.0 * std::f64::consts::LN_10 / (1.0 / (ft.min_pos() * 256.0)).ln();
    let before = pairs.len();
    pairs.retain(|&(i, j)| j == usize::MAX || (alpha[i] >= min_alpha_ratio && alpha[j] >= min_alpha_ratio));
    ctx.class("pair_statistics_skipped_unrepresentable_components", (before - pairs.len()) as u64);
    let stats: Vec<Stat> = pairs
        .into_iter()
        .filter_map(|(i, j)| {
            let (pa, pb) = if j == usize::MAX { (alpha[i], a0 - alpha[i]) } else { (alpha[i], alpha[j]) };
            let cell = Cell::new(Fam::Beta, ft, &[pa, pb]);
            let cell = Cell { p: vec![pa, pb], ..cell };
            let law = reflaw(&cell)?;
            let mut sl = Slack::for_cell(&cell, &law);
            // a component is a quotient of sums of `len` variates: allow len roundings
            sl.delta_rel *= 1.0 + len as f64 / 4.0;
            sl.rho_rel = (sl.rho_rel * (1.0 + len as f64)).min(0.5);
            let edges = build_edges(&law, ft, true);
            if edges.len() < 5 {
                return None;
            }
            let eb = edges.iter().map(|&x| edge_bounds(&law, &sl, x)).collect();
            Some(Stat { name: if j == usize::MAX { format!("x[{i}] ~ Beta({pa:e},{pb:e})") } else { format!("x[{i}]/(x[{i}]+x[{j}]) ~ Beta({pa:e},{pb:e})") }, i, j, edges, eb })
        })
        .collect();
    let tol_sum = 4.0 * len as f64 * ft.eps();
    let sample_hists = |n: u64, seed: u64| -> (Vec<Hist>, Vec<(String, String)>) {
        let chunks = 32u64;
        let clones: Vec<(u64, Dirichlet<F>)> = (0..chunks).map(|c| (c, d.clone())).collect();
        let parts: Vec<(Vec<Hist>, Vec<(String, String)>)> = clones
            .into_par_iter()
            .map(|(c, d)| {
                let mut hs: Vec<Hist> = stats.iter().map(|s| Hist { counts: vec![0; s.edges.len() + 1], nan: 0, n: 0, min: f64::INFINITY, max: f64::NEG_INFINITY }).collect();
                let mut bad: Vec<(String, String)> = vec![];
                let mut rng = VRng::from_env(hseed(&[seed, c]));
                let mut buf = vec![F::default(); len];
                let per = n / chunks;
                for k in 0..per {
                    // sample_to_slice on this stream; every 64th draw also through sample() on a clone
                    let check_pair = k % 64 == 0;
                    let mut rng2 = if check_pair { Some(rng.clone()) } else { None };
                    rng.begin_call();
                    if let Err(m) = catch(|| d.sample_to_slice(&mut rng, &mut buf)) {
                        if bad.len() < 3 {
                            bad.push(("panic".into(), format!("sample_to_slice panicked: {m}")));
                        }
                        continue;
                    }
                    if let Some(r2) = rng2.as_mut() {
                        r2.begin_call();
                        match catch(|| Distribution::<Vec<F>>::sample(&d, r2)) {
                            Ok(v) => {
                                if v.len() != len || v.iter().zip(buf.iter()).any(|(a, b)| a.bits() != b.bits()) || r2.pos != rng.pos {
                                    if bad.len() < 3 {
                                        bad.push(("sample_vs_slice".into(), format!("sample() = {:?} but sample_to_slice() = {:?} on the same stream (words {} vs {})", v, buf, r2.call_words, rng.call_words)));
                                    }
                                }
                            }
                            Err(m) => {
                                if bad.len() < 3 {
                                    bad.push(("panic".into(), format!("sample panicked: {m}")));
                                }
                            }
                        }
                    }
                    let mut sum = 0.0f64;
                    let mut okv = true;
                    for x in buf.iter() {
                        let xf = x.f();
                        if xf.is_nan() {
                            okv = false;
                            if bad.len() < 3 {
                                bad.push(("nan".into(), format!("NaN component in {:?}", buf)));
                            }
                            break;
                        }
                        if !(0.0..=1.0).contains(&xf) {
                            okv = false;
                            if bad.len() < 3 {
                                bad.push(("out_of_support".into(), format!("component outside [0,1] in {:?}", buf)));
                            }
                            break;
                        }
                        sum += xf;
                    }
                    if okv && (sum - 1.0).abs() > tol_sum {
                        if bad.len() < 3 {
                            bad.push(("sum".into(), format!("components sum to {} (|sum-1| > {:e}) in {:?}", sum, tol_sum, buf)));
                        }
                    }
                    if !okv {
                        continue;
                    }
                    for (s, h) in stats.iter().zip(hs.iter_mut()) {
                        let xi = buf[s.i].f();
                        let v = if s.j == usize::MAX {
                            xi
                        } else {
                            let xj = buf[s.j].f();
                            if xi + xj == 0.0 {
                                // both underflowed: the ratio is undefined; counted as NaN-free skip
                                continue;
                            }
                            xi / (xi + xj)
                        };
                        h.n += 1;
                        let b = s.edges.partition_point(|&e| e < v);
                        h.counts[b] += 1;
                    }
                }
                (hs, bad)
            })
            .collect();
        let mut hs: Vec<Hist> = stats.iter().map(|s| Hist { counts: vec![0; s.edges.len() + 1], nan: 0, n: 0, min: 0.0, max: 0.0 }).collect();
        let mut bad = vec![];
        for (ph, pb) in parts {
            for (h, p) in hs.iter_mut().zip(ph.iter()) {
                h.n += p.n;
                for (a, b) in h.counts.iter_mut().zip(p.counts.iter()) {
                    *a += *b;
                }
            }
            bad.extend(pb);
        }
        (hs, bad)
    };
    let (hs, bad) = sample_hists(n, seed);
    let class = if alpha.iter().all(|&x| x <= ft.rnd(0.1)) { "all<=0.1(beta method)" } else if alpha.iter().all(|&x| x > ft.rnd(0.1)) { "all>0.1(gamma method)" } else { "mixed(gamma method)" };
    ctx.class(&format!("dirichlet:{}:{}", if ft == Ft::F32 { "f32" } else { "f64" }, class), 1);
    ctx.eval(n);
    let distinct = alpha.iter().map(|x| x.to_bits()).collect::<std::collections::HashSet<_>>().len();
    if (len >= 3 && distinct > 1) || alpha.iter().any(|&x| (x - 0.1).abs() < 1e-6) {
        ctx.nontrivial(hseed(&[seed, 1]));
    }
    ctx.sample(seed, || json!({"alpha": alpha, "float": if ft == Ft::F32 { "f32" } else { "f64" }, "samples": n, "statistics": stats.len(), "class": class}));
    let mut seen = std::collections::HashSet::new();
    for (sym, msg) in bad {
        if seen.insert(sym.clone()) {
            dviol(ctx, ft, alpha, &sym, "random_stream", format!("Dirichlet<{:?}>({:?}): {}", ft, alpha, msg));
        }
    }
    // T5 on the components (Gamma method only: the Beta method's exact 0 / 1 components are a known finding): no
    // single value of x[0] or x[len-1] may occur more often than its Beta marginal allows for its grid cell — a
    // rare constant fallback ("all variates underflowed: return the centre") is invisible to the bin tests
    if class != "all<=0.1(beta method)" {
        use crate::stats::{atom_candidates, atom_min_count, atom_rejections};
        let m: usize = if ctx.thorough() { 1 << 20 } else { 1 << 18 };
        let draw = |m: usize, seed: u64| -> (Vec<f64>, Vec<f64>) {
            let parts: Vec<(Vec<f64>, Vec<f64>)> = (0..16u64)
                .into_par_iter()
                .map(|c| {
                    let d = d.clone();
                    let mut rng = VRng::from_env(hseed(&[seed, c]));
                    let mut buf = vec![F::default(); len];
                    let (mut a, mut b) = (Vec::with_capacity(m / 16), Vec::with_capacity(m / 16));
                    for _ in 0..m / 16 {
                        rng.begin_call();
                        if catch(|| d.sample_to_slice(&mut rng, &mut buf)).is_err() {
                            break;
                        }
                        a.push(buf[0].f());
                        b.push(buf[len - 1].f());
                    }
                    (a, b)
                })
                .collect();
            let (mut a, mut b) = (vec![], vec![]);
            for (x, y) in parts {
                a.extend(x);
                b.extend(y);
            }
            (a, b)
        };
        let (r0, r1) = draw(m, hseed(&[seed, 0xA70]));
        let mut conf: Option<(Vec<f64>, Vec<f64>)> = None;
        for (which, idx, raw) in [("x[0]", 0usize, &r0), ("x[last]", len - 1, &r1)] {
            let cell = Cell { p: vec![alpha[idx], a0 - alpha[idx]], ..Cell::new(Fam::Beta, ft, &[alpha[idx], a0 - alpha[idx]]) };
            let law = match reflaw(&cell) {
                Some(l) => l,
                None => continue,
            };
            let mut sl = Slack::for_cell(&cell, &law);
            sl.delta_rel *= 1.0 + len as f64 / 4.0;
            sl.rho_rel = (sl.rho_rel * (1.0 + len as f64)).min(0.5);
            let mm = raw.len() as u64;
            if mm < 1000 {
                continue;
            }
            let rej = atom_rejections(&law, &sl, ft, &atom_candidates(raw, atom_min_count(mm, sl.rho_abs)), mm);
            if rej.is_empty() {
                continue;
            }
            if conf.is_none() {
                conf = Some(draw(4 * m, hseed(&[seed, 0xA71])));
            }
            let raw2 = if idx == 0 { &conf.as_ref().unwrap().0 } else { &conf.as_ref().unwrap().1 };
            let c2: Vec<(f64, u64)> = rej.iter().map(|r| (r.at, raw2.iter().filter(|&&v| v == r.at).count() as u64)).collect();
            let rej2 = atom_rejections(&law, &sl, ft, &c2, raw2.len() as u64);
            if let Some(r) = rej2.iter().find(|r| rej.iter().any(|f| f.same_stat(r))) {
                dviol(ctx, ft, alpha, "law:T5:atom", "marginal", format!("Dirichlet<{:?}>({:?}): {which} takes the single value {:e} with frequency {:.3e} (confirmed on an independent stream); its Beta marginal allows {:.3e} for that grid cell", ft, alpha, r.at, r.observed, r.allowed_hi));
                break;
            }
        }
        ctx.class("atom_test_draws", m as u64);
    }
    let opts = TestOpts::default();
    // components live on a simplex: absolute resolution eps * 2^12; below that only the full-edge test looks (tagged)
    let cutoff = ft.eps() * 4096.0;
    let tests = |s: &Stat, h: &Hist| -> Vec<(bool, crate::stats::Rejection)> {
        let (eb2, h2) = truncate_low(&s.eb, h, cutoff);
        let mut out: Vec<(bool, crate::stats::Rejection)> = run_tests(&eb2, &h2, &opts).into_iter().map(|r| (true, r)).collect();
        if out.is_empty() {
            out = run_tests(&s.eb, h, &opts).into_iter().map(|r| (false, r)).collect();
        }
        out
    };
    let mut first: Vec<(usize, bool, crate::stats::Rejection)> = vec![];
    for (k, (s, h)) in stats.iter().zip(hs.iter()).enumerate() {
        for (above, r) in tests(s, h) {
            first.push((k, above, r));
        }
    }
    if !first.is_empty() {
        let (hs2, _) = sample_hists(4 * n, hseed(&[seed, 0xC0F1]));
        let mut reported = std::collections::HashSet::new();
        for (k, (s, h)) in stats.iter().zip(hs2.iter()).enumerate() {
            let second = tests(s, h);
            let confirmed: Vec<&(bool, crate::stats::Rejection)> = second.iter().filter(|(ab, r)| first.iter().any(|(k1, ab1, f)| *k1 == k && ab1 == ab && f.same_stat(r))).collect();
            if confirmed.is_empty() {
                continue;
            }
            let (above, r) = confirmed[0];
            let trig = match (s.j == usize::MAX, *above) {
                (true, true) => "marginal",
                (true, false) => "marginal:below_simplex_resolution",
                (false, _) => "pair",
            };
            if reported.insert(trig) {
                dviol(ctx, ft, alpha, &format!("law:{}", r.kind), trig, format!("Dirichlet<{:?}>({:?}): {}: {} at {:e}: observed {:.6e}, allowed [{:.6e}, {:.6e}] (n={}, confirmed on 4n)", ft, alpha, s.name, r.kind, r.at, r.observed, r.allowed_lo, r.allowed_hi, n));
            }
        }
    }
}

pub fn run_c11(ctx: &Ctx) {
    let (count, n) = if ctx.thorough() { (400usize, 10_000_000u64) } else { (120usize, 1_000_000u64) };
    for ft in [Ft::F32, Ft::F64] {
        let mut r = BaseRng::from_env(hseed(&[ctx.seed, ft as u64, 0xC11]));
        let alphas = dirichlet_alphas(ft, &mut r, count);
        for (i, a) in alphas.iter().enumerate() {
            let nn = if a.len() > 16 { n / 4 } else { n };
            let seed = hseed(&[ctx.seed, ft as u64, i as u64, 0xD1]);
            let cell = Cell::new(Fam::Dirichlet, ft, a);
            if !ctx.strict && ctx.in_known_region(&cell) && i >= crate::envelope::DIRICHLET_FIXED {
                ctx.class("random_vectors_excluded_by_known_finding_region", 1);
                continue;
            }
            match ft {
                Ft::F32 => dirichlet_one::<f32>(ctx, a, nn, seed),
                Ft::F64 => dirichlet_one::<f64>(ctx, a, nn, seed),
            }
        }
    }
}

// ---- C12 ---------------------------------------------------------------------------------------

fn uniform_bins_test(ctx: &Ctx, name: &str, ft: Ft, counts: &[u64], n: u64, rho_abs: f64, n_confirm: Option<&[u64]>) -> Option<String> {
    let k = counts.len();
    let p = 1.0 / k as f64;
    let (lo, hi) = ((p - rho_abs).max(0.0), p + rho_abs);
    let nf = n as f64;
    let mut worst: Option<(usize, f64, f64)> = None;
    let mut gkl = 0.0;
    for (i, &c) in counts.iter().enumerate() {
        let a = c as f64 / nf;
        let st = if a > hi { nf * kl_bern(a, hi, 1.0 - hi) } else if a < lo { nf * kl_bern(a, lo, 1.0 - lo) } else { 0.0 };
        if st > L_THRESH && worst.map(|w| st > w.2).unwrap_or(true) {
            worst = Some((i, a, st));
        }
        let b = a.clamp(lo, hi);
        if a != b && a > 0.0 {
            gkl += a * (a / b).ln() - a + b;
        } else if a == 0.0 {
            gkl += b;
        }
    }
    // global multinomial KL (Agrawal bound), K-1 degrees
    let k1 = (k - 1) as f64;
    let t = {
        let target = L_THRESH / k1;
        let (mut l, mut h) = (1.0f64, 2.0f64);
        while h - 1.0 - h.ln() < target {
            h *= 2.0;
        }
        for _ in 0..100 {
            let m = 0.5 * (l + h);
            if m - 1.0 - m.ln() < target { l = m } else { h = m }
        }
        h
    };
    let global = nf * gkl > k1 * t;
    let _ = (ctx, ft);
    match (worst, global, n_confirm) {
        (None, false, _) => None,
        (w, g, _) => Some(match w {
            Some((i, a, st)) => format!("{name}: bin {i} of {k} has frequency {:.6e} (uniform {:.6e}, stat {:.1}){}", a, p, st, if g { "; global KL test also rejects" } else { "" }),
            None => format!("{name}: global multinomial KL test rejects uniformity over {k} bins ({:.1} > {:.1})", nf * gkl, k1 * t),
        }),
    }
}

fn geom_counts<F: DF>(which: Fam, n: u64, seed: u64) -> (Vec<Vec<u64>>, Vec<String>)
where
    UnitCircle: Distribution<[F; 2]>,
    UnitDisc: Distribution<[F; 2]>,
    UnitSphere: Distribution<[F; 3]>,
    UnitBall: Distribution<[F; 3]>,
{
    use std::f64::consts::PI;
    // layouts: circle [720 angle]; disc [1024 = r2 x theta][32 r2][32 theta]; sphere [1024 z x lon][32 z][32 lon]; ball [4096][16 r3][16 z/r][16 lon]
    let dims: Vec<usize> = match which {
        Fam::UnitCircle => vec![720],
        Fam::UnitDisc => vec![1024, 32, 32],
        Fam::UnitSphere => vec![1024, 32, 32],
        _ => vec![4096, 16, 16, 16],
    };
    let chunks = 64u64;
    let eps = F::FT.eps();
    let parts: Vec<(Vec<Vec<u64>>, Vec<String>)> = (0..chunks)
        .into_par_iter()
        .map(|c| {
            let mut cs: Vec<Vec<u64>> = dims.iter().map(|&d| vec![0u64; d]).collect();
            let mut bad = vec![];
            let mut rng = BaseRng::from_env(hseed(&[seed, c]));
            let binu = |u: f64, k: usize| -> usize { ((u * k as f64) as usize).min(k - 1) };
            let ang = |y: f64, x: f64| -> f64 { (y.atan2(x) + PI) / (2.0 * PI) };
            for _ in 0..(n / chunks) {
                match which {
                    Fam::UnitCircle => {
                        let p: [F; 2] = UnitCircle.sample(&mut rng);
                        let (x, y) = (p[0].f(), p[1].f());
                        let nr = (x * x + y * y).sqrt();
                        if !(nr - 1.0).abs().le(&(8.0 * eps)) && bad.len() < 2 {
                            bad.push(format!("UnitCircle point ({x:e},{y:e}) has norm {nr}"));
                        }
                        cs[0][binu(ang(y, x), 720)] += 1;
                    }
                    Fam::UnitDisc => {
                        let p: [F; 2] = UnitDisc.sample(&mut rng);
                        let (x, y) = (p[0].f(), p[1].f());
                        let r2 = x * x + y * y;
                        if !(r2.sqrt() <= 1.0 + 4.0 * eps) && bad.len() < 2 {
                            bad.push(format!("UnitDisc point ({x:e},{y:e}) has norm {}", r2.sqrt()));
                        }
                        let (a, b) = (binu(r2.min(1.0), 32), binu(ang(y, x), 32));
                        cs[0][a * 32 + b] += 1;
                        cs[1][a] += 1;
                        cs[2][b] += 1;
                    }
                    Fam::UnitSphere => {
                        let p: [F; 3] = UnitSphere.sample(&mut rng);
                        let (x, y, z) = (p[0].f(), p[1].f(), p[2].f());
                        let nr = (x * x + y * y + z * z).sqrt();
                        if !(nr - 1.0).abs().le(&(8.0 * eps)) && bad.len() < 2 {
                            bad.push(format!("UnitSphere point ({x:e},{y:e},{z:e}) has norm {nr}"));
                        }
                        let (a, b) = (binu(((z + 1.0) / 2.0).clamp(0.0, 1.0), 32), binu(ang(y, x), 32));
                        cs[0][a * 32 + b] += 1;
                        cs[1][a] += 1;
                        cs[2][b] += 1;
                    }
                    _ => {
                        let p: [F; 3] = UnitBall.sample(&mut rng);
                        let (x, y, z) = (p[0].f(), p[1].f(), p[2].f());
                        let r = (x * x + y * y + z * z).sqrt();
                        if !(r <= 1.0 + 4.0 * eps) && bad.len() < 2 {
                            bad.push(format!("UnitBall point ({x:e},{y:e},{z:e}) has norm {r}"));
                        }
                        let zr = if r > 0.0 { z / r } else { 0.0 };
                        let (a, b, c3) = (binu((r * r * r).min(1.0), 16), binu(((zr + 1.0) / 2.0).clamp(0.0, 1.0), 16), binu(ang(y, x), 16));
                        cs[0][(a * 16 + b) * 16 + c3] += 1;
                        cs[1][a] += 1;
                        cs[2][b] += 1;
                        cs[3][c3] += 1;
                    }
                }
            }
            (cs, bad)
        })
        .collect();
    let mut total: Vec<Vec<u64>> = dims.iter().map(|&d| vec![0u64; d]).collect();
    let mut bad = vec![];
    for (cs, b) in parts {
        for (t, c) in total.iter_mut().zip(cs.iter()) {
            for (x, y) in t.iter_mut().zip(c.iter()) {
                *x += *y;
            }
        }
        bad.extend(b);
    }
    (total, bad)
}

/// keys (hash of the coordinate bit patterns) of m points; if `want` is non-empty, also the points whose key is wanted
fn geom_keys<F: DF>(which: Fam, m: u64, seed: u64, want: &[u64]) -> (Vec<u64>, Vec<(u64, Vec<f64>)>)
where
    UnitCircle: Distribution<[F; 2]>,
    UnitDisc: Distribution<[F; 2]>,
    UnitSphere: Distribution<[F; 3]>,
    UnitBall: Distribution<[F; 3]>,
{
    let chunks = 64u64;
    let parts: Vec<(Vec<u64>, Vec<(u64, Vec<f64>)>)> = (0..chunks)
        .into_par_iter()
        .map(|c| {
            let mut rng = BaseRng::from_env(hseed(&[seed, c, 0xA70]));
            let per = (m / chunks) as usize;
            let mut keys = Vec::with_capacity(per);
            let mut found = vec![];
            for _ in 0..per {
                let v: Vec<f64> = match which {
                    Fam::UnitCircle => { let p: [F; 2] = UnitCircle.sample(&mut rng); vec![p[0].f(), p[1].f()] }
                    Fam::UnitDisc => { let p: [F; 2] = UnitDisc.sample(&mut rng); vec![p[0].f(), p[1].f()] }
                    Fam::UnitSphere => { let p: [F; 3] = UnitSphere.sample(&mut rng); vec![p[0].f(), p[1].f(), p[2].f()] }
                    _ => { let p: [F; 3] = UnitBall.sample(&mut rng); vec![p[0].f(), p[1].f(), p[2].f()] }
                };
                let mut k = 0x9E37_79B9_7F4A_7C15u64;
                for x in &v {
                    k = crate::rng::mix(k ^ (x + 0.0).to_bits());
                }
                if !want.is_empty() && want.contains(&k) && found.len() < 4 {
                    found.push((k, v.clone()));
                }
                keys.push(k);
            }
            (keys, found)
        })
        .collect();
    let mut keys = Vec::with_capacity(m as usize);
    let mut found = vec![];
    for (k, f) in parts {
        keys.extend(k);
        found.extend(f);
    }
    (keys, found)
}

/// runs of identical keys with count >= min_c: (key, count), most frequent first (at most 8)
fn key_runs(keys: &mut Vec<u64>, min_c: u64) -> Vec<(u64, u64)> {
    keys.par_sort_unstable();
    let mut out = vec![];
    let mut i = 0;
    while i < keys.len() {
        let mut j = i + 1;
        while j < keys.len() && keys[j] == keys[i] {
            j += 1;
        }
        if (j - i) as u64 >= min_c {
            out.push((keys[i], (j - i) as u64));
        }
        i = j;
    }
    out.sort_by(|a, b| b.1.cmp(&a.1));
    out.truncate(8);
    out
}

/// T5 for the geometric samplers: no single point may carry more mass than the granularity allowance of the
/// float type (the same ρ_abs the bin tests use: 2^-20 for f32, whose 2^-23 uniform grid makes points such as
/// (-1, 0) legitimate atoms of mass ~1e-7; 2^-48 for f64). Criterion as in stats::atom_stat.
fn geom_atom_test<F: DF>(ctx: &Ctx, which: Fam, seed: u64, rho_abs: f64)
where
    UnitCircle: Distribution<[F; 2]>,
    UnitDisc: Distribution<[F; 2]>,
    UnitSphere: Distribution<[F; 3]>,
    UnitBall: Distribution<[F; 3]>,
{
    use crate::stats::{atom_stat, LN_ALPHA_ATOM};
    let fname = if F::FT == Ft::F32 { "f32" } else { "f64" };
    let m: u64 = if ctx.thorough() { 1 << 26 } else { 1 << 23 };
    let (mut keys, _) = geom_keys::<F>(which, m, seed, &[]);
    let runs = key_runs(&mut keys, 2);
    drop(keys);
    ctx.class(&format!("atom_test_points:{}:{}", which.name(), fname), m);
    let flagged: Vec<(u64, u64)> = runs.into_iter().filter(|&(_, c)| c as f64 / m as f64 > rho_abs && atom_stat(c, m, rho_abs) <= LN_ALPHA_ATOM).collect();
    if flagged.is_empty() {
        return;
    }
    let want: Vec<u64> = flagged.iter().map(|f| f.0).collect();
    let (keys2, found) = geom_keys::<F>(which, 4 * m, hseed(&[seed, 0xC0F1]), &want);
    for (k, c) in flagged {
        let c2 = keys2.iter().filter(|&&x| x == k).count() as u64;
        if c2 as f64 / (4 * m) as f64 > rho_abs && atom_stat(c2, 4 * m, rho_abs) <= LN_ALPHA_ATOM {
            let pt = found.iter().find(|f| f.0 == k).map(|f| format!("{:?}", f.1)).unwrap_or_else(|| "?".into());
            let cell = Cell::new(which, F::FT, &[]);
            ctx.violation(Violation {
                property: ctx.property.clone(),
                family: which.name(),
                float: fname.into(),
                symptom: "atom".into(),
                trigger: format!("point:{pt}"),
                what: format!("{}<{}>: the single point {} was returned {} times in {} draws and {} times in {} independent draws; a uniform law on a continuum allows a point mass of at most {:.2e}", which.name(), fname, pt, c, m, c2, 4 * m, rho_abs),
                case: json!({"kind": "geom", "cell": cell, "n": m}),
            });
            break;
        }
    }
}

fn geom_one<F: DF>(ctx: &Ctx, which: Fam, n: u64)
where
    UnitCircle: Distribution<[F; 2]>,
    UnitDisc: Distribution<[F; 2]>,
    UnitSphere: Distribution<[F; 3]>,
    UnitBall: Distribution<[F; 3]>,
{
    let ft = F::FT;
    let fname = if ft == Ft::F32 { "f32" } else { "f64" };
    let seed = hseed(&[ctx.seed, which as u64, ft as u64, 0xC12]);
    let n = (n / 64) * 64;
    let (counts, bad) = geom_counts::<F>(which, n, seed);
    ctx.eval(n);
    let names: Vec<&str> = match which {
        Fam::UnitCircle => vec!["angle(720)"],
        Fam::UnitDisc => vec!["r^2 x angle (32x32)", "r^2 (32)", "angle (32)"],
        Fam::UnitSphere => vec!["z x longitude (32x32)", "z (32)", "longitude (32)"],
        _ => vec!["r^3 x z/r x longitude (16x16x16)", "r^3 (16)", "z/r (16)", "longitude (16)"],
    };
    let rho_abs = if ft == Ft::F32 { 2f64.powi(-20) } else { 2f64.powi(-48) };
    let cell = Cell::new(which, ft, &[]);
    for b in bad.iter().take(1) {
        ctx.violation(Violation { property: ctx.property.clone(), family: which.name(), float: fname.into(), symptom: "norm".into(), trigger: "random_stream".into(), what: b.clone(), case: json!({"kind": "geom", "cell": cell, "n": n}) });
    }
    let mut nt = 0u64;
    let mut rejected: Vec<(usize, String)> = vec![];
    for (k, (c, nm)) in counts.iter().zip(names.iter()).enumerate() {
        nt += c.iter().filter(|&&x| x >= 1000).count() as u64;
        if let Some(msg) = uniform_bins_test(ctx, &format!("{}<{}> {}", which.name(), fname, nm), ft, c, n, rho_abs, None) {
            rejected.push((k, msg));
        }
    }
    geom_atom_test::<F>(ctx, which, seed, rho_abs);
    ctx.nontrivial_add(nt);
    ctx.class(&format!("points:{}:{}", which.name(), fname), n);
    ctx.sample(seed, || json!({"sampler": which.name(), "float": fname, "points": n, "bin_layouts": names, "bins_with_count_ge_1000": nt}));
    if !rejected.is_empty() {
        let (c2, _) = geom_counts::<F>(which, 4 * n, hseed(&[seed, 0xC0F1]));
        for (k, msg) in rejected {
            if let Some(m2) = uniform_bins_test(ctx, &format!("{}<{}> {}", which.name(), fname, names[k]), ft, &c2[k], 4 * n, rho_abs, None) {
                ctx.violation(Violation { property: ctx.property.clone(), family: which.name(), float: fname.into(), symptom: "uniformity".into(), trigger: names[k].to_string(), what: format!("{msg}; confirmed on 4n: {m2}"), case: json!({"kind": "geom", "cell": cell, "n": n}) });
                break;
            }
        }
    }
}

pub fn run_c12(ctx: &Ctx) {
    let n: u64 = if ctx.thorough() { 10_000_000_000 } else { 500_000_000 };
    for which in [Fam::UnitCircle, Fam::UnitDisc, Fam::UnitSphere, Fam::UnitBall] {
        geom_one::<f32>(ctx, which, n);
        geom_one::<f64>(ctx, which, n);
    }
    // norm clause under single-word-adversarial streams: every lattice word at positions 0..7
    let lat = crate::rng::lattice();
    let seeds: u64 = if ctx.thorough() { 64 } else { 8 };
    for which in [Fam::UnitCircle, Fam::UnitDisc, Fam::UnitSphere, Fam::UnitBall] {
        for ft in [Ft::F32, Ft::F64] {
            let cell = Cell::new(which, ft, &[]);
            let s = crate::families::build(&cell).unwrap();
            let mut ev = 0u64;
            let mut nt = 0u64;
            for sd in 0..seeds {
                for pos in 0..8u64 {
                    for &w in &lat {
                        let case = crate::streams::StreamCase { cell: cell.clone(), seed: hseed(&[ctx.seed, sd, 0x6E0]), forced: vec![(pos, w)], regions: vec![] };
                        let res = crate::streams::run_case(s.as_ref(), &case);
                        ev += 1;
                        if res.consumed_forced {
                            nt += 1;
                        }
                        if let Some((sym, msg)) = res.violation {
                            crate::streams::report(ctx, &case, &sym, &msg);
                        }
                    }
                }
            }
            ctx.eval(ev);
            ctx.nontrivial_add(nt);
            ctx.class("adversarial_stream_calls", ev);
        }
    }
}

pub fn replay(ctx: &Ctx, case: &Value) -> bool {
    let cell: Cell = match serde_json::from_value(case["cell"].clone()) {
        Ok(c) => c,
        Err(_) => return false,
    };
    match case["kind"].as_str().unwrap_or("") {
        "dirichlet" => {
            let seed = hseed(&[ctx.seed, 0xD1]);
            match cell.ft {
                Ft::F32 => dirichlet_one::<f32>(ctx, &cell.p, 1_000_000, seed),
                Ft::F64 => dirichlet_one::<f64>(ctx, &cell.p, 1_000_000, seed),
            }
            true
        }
        "geom" => {
            let n = case["n"].as_u64().unwrap_or(100_000_000);
            match cell.ft {
                Ft::F32 => geom_one::<f32>(ctx, cell.fam, n),
                Ft::F64 => geom_one::<f64>(ctx, cell.fam, n),
            }
            true
        }
        _ => false,
    }
}
