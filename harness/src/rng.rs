//! RNG layer (DESIGN §3.1): base generators, scripted streams, word counting.
use rand::rand_core::Infallible;
use rand::rngs::{ChaCha12Rng, SmallRng};
use rand::{Rng, SeedableRng, TryRng};
use rand_pcg::Pcg64;

/// Which base PRNG feeds the checks (`VERIF_PRNG`).
#[derive(Clone, Copy, Debug, PartialEq, Eq)]
pub enum Prng {
    ChaCha,
    Pcg,
    Xoshiro,
}

impl Prng {
    pub fn from_env() -> Prng {
        match std::env::var("VERIF_PRNG").ok().as_deref() {
            Some("pcg64") | Some("pcg") => Prng::Pcg,
            Some("xoshiro") => Prng::Xoshiro,
            _ => Prng::ChaCha,
        }
    }
    pub fn name(self) -> &'static str {
        match self {
            Prng::ChaCha => "chacha12",
            Prng::Pcg => "pcg64",
            Prng::Xoshiro => "xoshiro256++",
        }
    }
}

/// splitmix64-style mixing used for all seed derivations (pure function).
pub fn mix(mut z: u64) -> u64 {
    z = z.wrapping_add(0x9E3779B97F4A7C15);
    z = (z ^ (z >> 30)).wrapping_mul(0xBF58476D1CE4E5B9);
    z = (z ^ (z >> 27)).wrapping_mul(0x94D049BB133111EB);
    z ^ (z >> 31)
}

pub fn hseed(parts: &[u64]) -> u64 {
    let mut h = 0x243F6A8885A308D3u64;
    for &p in parts {
        h = mix(h ^ mix(p));
    }
    h
}

pub fn hstr(s: &str) -> u64 {
    let mut h = 0xcbf29ce484222325u64;
    for b in s.bytes() {
        h ^= b as u64;
        h = h.wrapping_mul(0x100000001b3);
    }
    mix(h)
}

#[derive(Debug)]
pub enum BaseRng {
    ChaCha(ChaCha12Rng),
    Pcg(Pcg64),
    Xo(SmallRng),
    /// counter-based splitmix stream: trivially cheap to construct and clone (used by exhaustive sweeps,
    /// where the swept word, not the filler stream, is the object of study)
    Mix { seed: u64, ctr: u64 },
}

impl BaseRng {
    pub fn new(kind: Prng, seed: u64) -> BaseRng {
        match kind {
            Prng::ChaCha => BaseRng::ChaCha(ChaCha12Rng::seed_from_u64(seed)),
            Prng::Pcg => BaseRng::Pcg(Pcg64::seed_from_u64(seed)),
            Prng::Xoshiro => BaseRng::Xo(SmallRng::seed_from_u64(seed)),
        }
    }
    pub fn from_env(seed: u64) -> BaseRng {
        BaseRng::new(Prng::from_env(), seed)
    }
}

impl Clone for BaseRng {
    fn clone(&self) -> BaseRng {
        match self {
            BaseRng::ChaCha(r) => {
                let mut c = ChaCha12Rng::from_seed(r.get_seed());
                c.set_stream(r.get_stream());
                c.set_word_pos(r.get_word_pos());
                BaseRng::ChaCha(c)
            }
            BaseRng::Pcg(r) => BaseRng::Pcg(r.clone()),
            BaseRng::Xo(r) => BaseRng::Xo(r.clone()),
            BaseRng::Mix { seed, ctr } => BaseRng::Mix { seed: *seed, ctr: *ctr },
        }
    }
}

impl TryRng for BaseRng {
    type Error = Infallible;
    #[inline(always)]
    fn try_next_u32(&mut self) -> Result<u32, Infallible> {
        // one 64-bit word per call; high half (as Xoshiro256++ does)
        Ok((self.try_next_u64()? >> 32) as u32)
    }
    #[inline(always)]
    fn try_next_u64(&mut self) -> Result<u64, Infallible> {
        Ok(match self {
            BaseRng::ChaCha(r) => r.next_u64(),
            BaseRng::Pcg(r) => r.next_u64(),
            BaseRng::Xo(r) => r.next_u64(),
            BaseRng::Mix { seed, ctr } => {
                *ctr = ctr.wrapping_add(1);
                mix(*seed ^ mix(*ctr))
            }
        })
    }
    fn try_fill_bytes(&mut self, dst: &mut [u8]) -> Result<(), Infallible> {
        for chunk in dst.chunks_mut(8) {
            let w = self.try_next_u64()?.to_le_bytes();
            chunk.copy_from_slice(&w[..chunk.len()]);
        }
        Ok(())
    }
}

/// Panic payload raised when one `sample()` call draws more than the budget.
#[derive(Debug)]
pub struct WordBudget(pub u64);

pub const DEFAULT_BUDGET: u64 = 100_000;

/// Scripted + counting stream. One 64-bit word per call; `next_u32` = high 32 bits.
#[derive(Clone, Debug)]
pub struct VRng {
    base: BaseRng,
    /// forced words by absolute position (small, unsorted)
    forced: Vec<(u64, u64)>,
    /// words consumed since construction
    pub pos: u64,
    /// words consumed since `begin_call`
    pub call_words: u64,
    pub budget: u64,
    /// kinds of the first 16 calls since `begin_call` (0 = u32, 1 = u64, 2 = bytes)
    pub kinds: [u8; 16],
}

impl VRng {
    pub fn new(kind: Prng, seed: u64) -> VRng {
        VRng {
            base: BaseRng::new(kind, seed),
            forced: Vec::new(),
            pos: 0,
            call_words: 0,
            budget: DEFAULT_BUDGET,
            kinds: [255; 16],
        }
    }
    pub fn from_env(seed: u64) -> VRng {
        VRng::new(Prng::from_env(), seed)
    }
    /// cheap counter-based filler stream (sweeps)
    pub fn mix(seed: u64) -> VRng {
        VRng {
            base: BaseRng::Mix { seed, ctr: 0 },
            forced: Vec::new(),
            pos: 0,
            call_words: 0,
            budget: DEFAULT_BUDGET,
            kinds: [255; 16],
        }
    }
    pub fn with_forced(mut self, forced: &[(u64, u64)]) -> VRng {
        self.forced = forced.to_vec();
        self
    }
    pub fn force(&mut self, pos: u64, word: u64) {
        self.forced.push((pos, word));
    }
    pub fn clear_forced(&mut self) {
        self.forced.clear();
    }
    pub fn begin_call(&mut self) {
        self.call_words = 0;
        self.kinds = [255; 16];
    }
    #[inline(always)]
    fn word(&mut self, kind: u8) -> u64 {
        let mut w = match self.base.try_next_u64() {
            Ok(w) => w,
        };
        if !self.forced.is_empty() {
            for &(p, f) in &self.forced {
                if p == self.pos {
                    w = f;
                }
            }
        }
        if (self.call_words as usize) < 16 {
            self.kinds[self.call_words as usize] = kind;
        }
        self.pos += 1;
        self.call_words += 1;
        if self.call_words > self.budget {
            std::panic::panic_any(WordBudget(self.call_words));
        }
        w
    }
}

impl TryRng for VRng {
    type Error = Infallible;
    #[inline]
    fn try_next_u32(&mut self) -> Result<u32, Infallible> {
        Ok((self.word(0) >> 32) as u32)
    }
    #[inline]
    fn try_next_u64(&mut self) -> Result<u64, Infallible> {
        Ok(self.word(1))
    }
    fn try_fill_bytes(&mut self, dst: &mut [u8]) -> Result<(), Infallible> {
        for chunk in dst.chunks_mut(8) {
            let w = self.word(2).to_le_bytes();
            chunk.copy_from_slice(&w[..chunk.len()]);
        }
        Ok(())
    }
}

/// Boundary lattice Λ (DESIGN §3.1), deduplicated, deterministic order.
pub fn lattice() -> Vec<u64> {
    let mut v: Vec<u64> = vec![0, 1, 2, 3, u64::MAX, u64::MAX - 1, u64::MAX - 2];
    for k in 0..64 {
        let p = 1u64 << k;
        v.push(p);
        v.push(p.wrapping_sub(1));
        v.push(!p);
    }
    // f32 grids: 24-bit value in the top bits (StandardUniform / OpenClosed01), 23-bit (Open01 / Uniform)
    for &(bits, shift) in &[(24u32, 40u32), (23, 41)] {
        let top = 1u64 << bits;
        let half = top >> 1;
        for v0 in [0, 1, 2, half - 1, half, half + 1, top - 2, top - 1] {
            v.push(v0 << shift);
            v.push((v0 << shift) | ((1u64 << shift) - 1));
        }
    }
    // f64 grids: 53-bit (>>11) and 52-bit (>>12) with low-12 patterns
    for &(bits, shift) in &[(53u32, 11u32), (52, 12)] {
        let top = 1u64 << bits;
        let half = top >> 1;
        for v0 in [0, 1, 2, half - 1, half, half + 1, top - 2, top - 1] {
            for low in [0x000u64, 0x001, 0x0FF, 0x100, 0xF00, 0xFFF] {
                v.push((v0 << shift) | (low & ((1u64 << shift) - 1)));
            }
        }
    }
    // ziggurat sweep: layer byte x mantissa
    for layer in [0u64, 1, 2, 127, 128, 254, 255] {
        for mant in [0u64, 1u64 << 51, (1u64 << 52) - 1] {
            v.push((mant << 12) | layer);
            v.push((mant << 12) | 0xF00 | layer);
        }
    }
    let mut seen = std::collections::HashSet::new();
    v.retain(|w| seen.insert(*w));
    v
}

/// Extra lattice words for an integer uniform draw of range `r` (Lemire/Canon widening multiply).
pub fn lattice_for_range(r: u64) -> Vec<u64> {
    let mut v = Vec::new();
    if r == 0 {
        return v;
    }
    for j in [1u64, r.saturating_sub(1), r] {
        for w in [32u32, 64] {
            let q = if w == 64 {
                ((1u128 << 64) * j as u128 / r as u128).min(u64::MAX as u128) as u64
            } else {
                (((1u128 << 32) * j as u128 / r as u128).min(u32::MAX as u128) as u64) << 32
            };
            let step = if w == 64 { 1 } else { 1u64 << 32 };
            v.push(q.wrapping_sub(step));
            v.push(q);
            v.push(q.wrapping_add(step));
        }
    }
    v
}

/// A "region word": a random word constrained to a set of measure >= 2^-12 that forces a
/// rare-but-ordinary branch. Kinds: 0 = ziggurat layer 0 with |u| large (tail branch),
/// 1 = top 1/4096 of the uniform range, 2 = bottom 1/4096 of the uniform range, 3 = ziggurat layer 0 any u.
pub fn region_word(kind: u8, r: u64) -> u64 {
    match kind % 4 {
        0 => {
            // layer 0, mantissa in the top 1/32 => u close to +max (beyond the tail abscissa ratio)
            let mant = ((31u64 << 47) | (r >> 17)) & ((1u64 << 52) - 1);
            (mant << 12) | (r & 0xF00)
        }
        1 => (0xFFFu64 << 52) | (r >> 12),
        2 => r >> 12,
        _ => {
            // layer 0, mantissa in the bottom 1/32 => u close to -1 (negative normal tail)
            let mant = (r >> 17) & ((1u64 << 47) - 1);
            (mant << 12) | (r & 0xF00)
        }
    }
}
