//! C07: location and scale parameters act as exact affine maps on a fixed random stream (DESIGN §5 C07).
use crate::envelope::{grid, random_cell};
use crate::families::{build, Cell, Fam, Ft, Val};
use crate::report::{catch, Ctx, Violation};
use crate::rng::{hseed, lattice, BaseRng, VRng};
use crate::streams::ft_name;
use rand::RngExt;
use rand_distr::{Distribution, LogNormal, Normal, StandardNormal};
use rayon::prelude::*;
use serde::{Deserialize, Serialize};
use serde_json::{json, Value};

pub const FAMS: [Fam; 13] = [
    Fam::Normal, Fam::Cauchy, Fam::Gumbel, Fam::Frechet, Fam::SkewNormal, Fam::Exp, Fam::Gamma, Fam::Weibull, Fam::Pareto,
    Fam::InverseGaussian, Fam::LogNormal, Fam::Triangular, Fam::Pert,
];

#[derive(Clone, Debug, Serialize, Deserialize)]
pub struct AffineCase {
    /// extreme (E+) base cell: subnormal intermediates break exact scaling, so the exact regime is not claimed
    #[serde(default)]
    pub extreme: bool,
    pub cell: Cell,
    pub a: f64,
    pub b: f64,
    pub seed: u64,
    pub forced: Vec<(u64, u64)>,
}

/// transformed cell and the location magnitudes entering the rounding allowance
fn transform(cell: &Cell, a: f64, b: f64) -> Option<(Cell, f64)> {
    let ft = cell.ft;
    let p = &cell.p;
    let r = |x: f64| ft.rnd(x);
    let (q, loc): (Vec<f64>, f64) = match cell.fam {
        Fam::Normal | Fam::Cauchy | Fam::Gumbel => (vec![r(a + b * p[0]), r(b * p[1])], (b * p[0]).abs().max((a + b * p[0]).abs())),
        Fam::Frechet | Fam::SkewNormal => (vec![r(a + b * p[0]), r(b * p[1]), p[2]], (b * p[0]).abs().max((a + b * p[0]).abs())),
        Fam::Exp => (vec![r(p[0] / b)], 0.0),
        Fam::Gamma => (vec![p[0], r(p[1] * b)], 0.0),
        Fam::Weibull | Fam::Pareto => (vec![r(p[0] * b), p[1]], 0.0),
        Fam::InverseGaussian => (vec![r(p[0] * b), r(p[1] * b)], 0.0),
        Fam::LogNormal => (vec![r(a + b * p[0]), r(b * p[1])], (b * p[0]).abs().max((a + b * p[0]).abs())),
        Fam::Triangular => (vec![r(a + b * p[0]), r(a + b * p[1]), r(a + b * p[2])], p[0].abs().max(p[1].abs()) * b.abs() + a.abs()),
        Fam::Pert => (vec![r(a + b * p[0]), r(a + b * p[1]), r(a + b * p[2]), p[3]], p[0].abs().max(p[1].abs()) * b.abs() + a.abs()),
        _ => return None,
    };
    Some((Cell { fam: cell.fam, ft, p: q, ip: vec![] }, loc))
}

fn dyadic(b: f64) -> bool {
    b != 0.0 && b.is_finite() && (b.abs().log2().fract() == 0.0)
}

/// exactly-transformable check: with a dyadic factor, are the quantities the sampler computes from the
/// parameters scaled exactly (no rounding anywhere in the parameter algebra)?
fn exact_params(cell: &Cell, t: &Cell, _a: f64, b: f64) -> bool {
    let ft = cell.ft;
    let d = |x: f64, y: f64| ft.rnd(x - y);
    match cell.fam {
        Fam::Triangular | Fam::Pert => {
            let (p, q) = (&cell.p, &t.p);
            d(q[2], q[0]) == b * d(p[2], p[0])
                && d(q[1], q[0]) == b * d(p[1], p[0])
                && d(q[1], q[2]) == b * d(p[1], p[2])
                && d(p[2], p[0]) == p[2] - p[0]
                && d(p[1], p[0]) == p[1] - p[0]
                && d(p[1], p[2]) == p[1] - p[2]
        }
        Fam::InverseGaussian => t.p[0] == cell.p[0] * b && t.p[1] == cell.p[1] * b,
        _ => true,
    }
}

pub struct Res {
    pub nontrivial: bool,
    pub flip: bool,
    pub violation: Option<(String, String)>,
}

pub fn run_case(c: &AffineCase) -> Res {
    let mut res = Res { nontrivial: false, flip: false, violation: None };
    let (t, loc) = match transform(&c.cell, c.a, c.b) {
        Some(x) => x,
        None => return res,
    };
    let (s0, s1) = match (build(&c.cell), build(&t)) {
        (Ok(a), Ok(b)) => (a, b),
        _ => return res,
    };
    let mk = || {
        let mut r = VRng::from_env(c.seed);
        for &(p, w) in &c.forced {
            r.force(p, w);
        }
        r.begin_call();
        r
    };
    let (mut r0, mut r1) = (mk(), mk());
    let y0 = match catch(|| s0.sample_v(&mut r0)) {
        Ok(v) => v,
        Err(_) => return res,
    };
    let y1 = match catch(|| s1.sample_v(&mut r1)) {
        Ok(v) => v,
        Err(_) => return res,
    };
    res.nontrivial = !(c.a == 0.0 && c.b == 1.0) && r0.call_words >= 1;
    let (f0, f1) = (y0.as_f64(), y1.as_f64());
    if !f0.is_finite() || !f1.is_finite() {
        return res; // non-finite samples are C03's business
    }
    if !(c.a + c.b * f0).is_finite() && c.cell.fam != Fam::LogNormal {
        // the exact image overflows the float type but the sampler returned a finite value
        res.violation = Some(("affine_map".into(), format!("{} (a={:e}, b={:e}): a + b*y overflows (y = {:e}) but the transformed sampler returned the finite value {:e}", c.cell.key(), c.a, c.b, f0, f1)));
        return res;
    }
    let eps = c.cell.ft.eps();
    let key = format!("{} -> {} (a={:e}, b={:e})", c.cell.key(), t.key(), c.a, c.b);
    let strict_branching = !c.extreme && dyadic(c.b) && exact_params(&c.cell, &t, c.a, c.b);
    if r0.call_words != r1.call_words {
        // only a sampler whose accept / reject decisions can flip under rounded parameters may legitimately
        // consume a different number of words: Pert (Beta rejection). Triangular always draws exactly one uniform
        // and InverseGaussian one normal and one uniform whatever branch they take: judged in both regimes
        let branching = matches!(c.cell.fam, Fam::Pert);
        if !branching || strict_branching {
            res.violation = Some(("word_count".into(), format!("{key}: {} vs {} words consumed on the same stream", r0.call_words, r1.call_words)));
            return res;
        }
        res.flip = true;
        return res;
    }
    let (expect, tol) = if c.cell.fam == Fam::LogNormal {
        // affine in log space
        let e = c.a + c.b * f0.ln();
        let got = f1.ln();
        let m = c.a.abs().max((c.b * f0.ln()).abs()).max(got.abs()).max(loc);
        (e, 8.0 * eps * m + 4.0 * eps, )
    } else {
        let e = c.a + c.b * f0;
        let m = c.a.abs().max((c.b * f0).abs()).max(f1.abs()).max(loc);
        (e, 8.0 * eps * m)
    };
    let got = if c.cell.fam == Fam::LogNormal { f1.ln() } else { f1 };
    let mut tol = tol.max(c.cell.ft.min_pos() * 8.0);
    if !strict_branching {
        // rounded (non-dyadic or off-lattice) parameters: the parameter algebra itself rounds, and the
        // samplers below amplify that rounding; the strict cases carry the exactness claim
        match c.cell.fam {
            Fam::InverseGaussian => {
                // x = mu + mu/(2 lambda) (y - sqrt(..)): errors relative to mu, amplified by mu/lambda
                let (mu, l) = (t.p[0], t.p[1]);
                // (the large root mu^2/x inherits the relative error of the small one, i.e. another factor x/mu)
                tol = 64.0 * eps * f1.abs().max(mu) * (1.0 + mu / l) * (1.0 + f1.abs() / mu);
            }
            Fam::Triangular => {
                // y = end -+ sqrt(D): D carries an absolute error ~ eps range^2
                let range = (t.p[1] - t.p[0]).abs();
                let dist = (f1 - t.p[0]).abs().min((t.p[1] - f1).abs());
                let extra = if dist > 0.0 { ((8.0 * eps).sqrt() * range).min(16.0 * eps * range * range / dist) } else { (8.0 * eps).sqrt() * range };
                tol += extra;
            }
            _ => {}
        }
    }
    if (got - expect).abs() > tol {
        if c.cell.fam == Fam::InverseGaussian && !strict_branching {
            // the accept decision u <= mu/(mu+x) may flip; the other root is mu^2/x
            let mu1 = t.p[0];
            let other = mu1 * mu1 / f1;
            // mu^2/x inherits the *relative* error allowed for x (tol / |x|)
            let rel = if f1 != 0.0 { tol / f1.abs() } else { 0.0 };
            if (other - expect).abs() <= tol.max(64.0 * eps * other.abs().max(expect.abs())).max(rel * other.abs()) {
                res.flip = true;
                return res;
            }
        }
        if c.cell.fam == Fam::Pert && !strict_branching {
            res.flip = true; // v, w differ in the last bits => a different Beta variate; counted, not judged
            return res;
        }
        res.violation = Some(("affine_map".into(), format!("{key}: sample {:e} on the transformed parameters, expected a + b*y = {:e} from y = {:e} (|diff| {:.3e} > tol {:.3e}; {})", got, expect, f0, (got - expect).abs(), tol, if strict_branching { "exact dyadic case" } else { "rounded parameters" })));
    }
    res
}

fn report(ctx: &Ctx, c: &AffineCase, sym: &str, msg: &str) {
    ctx.violation(Violation {
        property: ctx.property.clone(),
        family: c.cell.fam.name(),
        float: ft_name(&c.cell),
        symptom: sym.into(),
        trigger: if c.forced.is_empty() { "random".into() } else { crate::streams::word_class(c.forced[0].1).to_string() },
        what: msg.into(),
        case: json!({"kind": "affine", "affine": c, "cell": c.cell}),
    });
}

fn lattice_cell(fam: Fam, ft: Ft, r: &mut BaseRng) -> Cell {
    // parameters on a coarse dyadic lattice so that dyadic maps are exact
    let q = |r: &mut BaseRng, lo: i32, hi: i32| -> f64 { r.random_range(lo..=hi) as f64 / 8.0 };
    match fam {
        Fam::Triangular | Fam::Pert => {
            let mn = q(r, -80, 80);
            let range = q(r, 1, 80);
            let mode = mn + range * (r.random_range(0..=8) as f64 / 8.0);
            if fam == Fam::Pert {
                Cell::new(fam, ft, &[mn, mn + range, mode, [0.0, 1.0, 4.0, 7.5][r.random_range(0..4)]])
            } else {
                Cell::new(fam, ft, &[mn, mn + range, mode])
            }
        }
        Fam::InverseGaussian => {
            let mu = q(r, 1, 64);
            let ratio = [0.125, 0.5, 1.0, 4.0, 16.0][r.random_range(0..5)];
            Cell::new(fam, ft, &[mu, mu * ratio])
        }
        _ => random_cell(fam, ft, r),
    }
}

pub fn run(ctx: &Ctx) {
    let per_cell: u64 = if ctx.thorough() { 300_000 } else { 30_000 };
    let k_rand = if ctx.thorough() { 64 } else { 12 };
    let lat = lattice();
    let mut jobs: Vec<(Cell, u64, bool)> = vec![];
    for &fam in FAMS.iter() {
        for ft in [Ft::F32, Ft::F64] {
            let mut r = BaseRng::from_env(hseed(&[ctx.seed, fam as u64, ft as u64, 0xC07]));
            let mut cells = grid(fam, ft);
            for _ in 0..k_rand {
                cells.push(random_cell(fam, ft, &mut r));
                cells.push(lattice_cell(fam, ft, &mut r));
            }
            // all base parameter vectors: also the extreme shapes the constructors accept (E+)
            let n_env = cells.len();
            // (InverseGaussian extremes are left out: its subnormal intermediates lose relative accuracy in a way no stated tolerance covers)
            cells.extend(crate::termination::extreme_cells().into_iter().filter(|c| c.fam == fam && c.ft == ft && fam != Fam::InverseGaussian));
            for (i, c) in cells.into_iter().enumerate() {
                jobs.push((c, hseed(&[ctx.seed, fam as u64, ft as u64, i as u64]), i >= n_env));
            }
        }
    }
    ctx.set_extra("base_cells", json!(jobs.len()));
    let flips = std::sync::atomic::AtomicU64::new(0);
    jobs.par_iter().for_each(|(cell, js, extreme)| {
        let mut r = BaseRng::from_env(*js);
        let scale_only = matches!(cell.fam, Fam::Exp | Fam::Gamma | Fam::Weibull | Fam::Pareto | Fam::InverseGaussian);
        let mut ev = 0u64;
        let mut nt = 0u64;
        for i in 0..per_cell {
            // every fifth pair of an envelope cell: a far power of two (exact in both float types and far from
            // overflow / underflow: 2^-30 of a parameter >= 1e-3 squared is still > 2^-126), so that absolute
            // thresholds on a scaled quantity are crossed (seeded change R7-C07-2)
            let far = !*extreme && i % 5 == 4 && !matches!(cell.fam, Fam::InverseGaussian | Fam::LogNormal);
            let b = match r.random_range(0..4) {
                _ if far => 2f64.powi(r.random_range(9..=30) * if r.random_range(0..2) == 0 { -1 } else { 1 }),
                0 | 1 => 2f64.powi(r.random_range(-8..=8)),
                _ => (r.random::<f64>() * 13.8 - 6.9).exp(),
            };
            let b = if cell.fam == Fam::Normal && r.random_range(0..3) == 0 { -b } else { b };
            let a = if scale_only {
                0.0
            } else {
                match r.random_range(0..3) {
                    0 => 0.0,
                    1 => r.random_range(-8000..=8000) as f64 / 8.0,
                    _ => (r.random::<f64>() * 2.0 - 1.0) * 1e3,
                }
            };
            let (a, b) = (cell.ft.rnd(a), cell.ft.rnd(b));
            let (a, b) = if cell.fam == Fam::LogNormal { (a.clamp(-5.0, 5.0), b.clamp(-2.0, 2.0)) } else { (a, b) };
            if b == 0.0 {
                continue;
            }
            let forced = if i % 4 == 3 { vec![(r.random_range(0..4u64), lat[r.random_range(0..lat.len())])] } else { vec![] };
            let c = AffineCase { extreme: *extreme, cell: cell.clone(), a, b, seed: hseed(&[*js, i]), forced };
            let res = run_case(&c);
            ev += 1;
            if res.nontrivial {
                nt += 1;
            }
            if res.flip {
                flips.fetch_add(1, std::sync::atomic::Ordering::Relaxed);
            }
            if let Some((sym, msg)) = res.violation {
                report(ctx, &c, &sym, &msg);
            }
            if i == 1 {
                ctx.sample(*js, || json!({"cell": c.cell.key(), "a": c.a, "b": c.b, "seed": c.seed}));
            }
        }
        ctx.eval(ev);
        ctx.nontrivial_add(nt);
        ctx.class(&format!("pairs:{}:{}", cell.fam.name(), ft_name(cell)), ev);
    });
    ctx.class("branch_flips_counted_not_judged", flips.load(std::sync::atomic::Ordering::Relaxed));
    zscore(ctx);
}

/// Normal::from_zscore / LogNormal::from_zscore for every z (bit-exact), and sample == from_zscore(StandardNormal sample)
fn zscore(ctx: &Ctx) {
    let n: u64 = if ctx.thorough() { 20_000_000 } else { 1_000_000 };
    let bad = std::sync::Mutex::new(Vec::<(String, String, Value)>::new());
    (0..16u64).into_par_iter().for_each(|chunk| {
        let mut r = BaseRng::from_env(hseed(&[ctx.seed, chunk, 0x25C0]));
        let specials64 = [0.0f64, -0.0, 1.0, -1.0, f64::INFINITY, f64::NEG_INFINITY, f64::NAN, f64::MAX, f64::MIN_POSITIVE, 1e-310];
        for i in 0..(n / 16) {
            let mean = match r.random_range(0..4) { 0 => 0.0, _ => (r.random::<f64>() * 2.0 - 1.0) * 1e3 };
            let sd = match r.random_range(0..5) { 0 => 0.0, 1 => -(r.random::<f64>() * 10.0), _ => (r.random::<f64>() * 13.8 - 6.9).exp() };
            let z64 = if i % 8 == 0 { specials64[r.random_range(0..specials64.len())] } else { f64::from_bits(r.random::<u64>()) };
            let z = if i % 3 == 0 { (r.random::<f64>() * 12.0) - 6.0 } else { z64 };
            // f64
            {
                let d = Normal::<f64>::new(mean, sd).unwrap();
                let got = d.from_zscore(z);
                let exp = mean + sd * z;
                if got.to_bits() != exp.to_bits() && !(got.is_nan() && exp.is_nan()) {
                    bad.lock().unwrap().push(("from_zscore".into(), format!("Normal<f64>({mean:e},{sd:e}).from_zscore({z:e}) = {got:e}, mean + std_dev*z = {exp:e}"), json!({"mean": mean, "sd": sd, "z_bits": z.to_bits(), "ft": "f64"})));
                }
                let ln = LogNormal::<f64>::new(mean / 200.0, sd.abs().min(3.0)).unwrap();
                let (m2, s2) = (mean / 200.0, sd.abs().min(3.0));
                let got = ln.from_zscore(z);
                let exp = (m2 + s2 * z).exp();
                if got.to_bits() != exp.to_bits() && !(got.is_nan() && exp.is_nan()) {
                    bad.lock().unwrap().push(("from_zscore".into(), format!("LogNormal<f64>({m2:e},{s2:e}).from_zscore({z:e}) = {got:e}, exp(mu + sigma*z) = {exp:e}"), json!({"mean": m2, "sd": s2, "z_bits": z.to_bits(), "ft": "f64", "log": true})));
                }
                // sample == from_zscore(StandardNormal sample) on cloned streams, same word count
                let seed = hseed(&[ctx.seed, chunk, i]);
                let (mut r0, mut r1) = (VRng::from_env(seed), VRng::from_env(seed));
                let zz: f64 = StandardNormal.sample(&mut r0);
                let y: f64 = d.sample(&mut r1);
                let e = mean + sd * zz;
                if (y.to_bits() != e.to_bits() && !(y.is_nan() && e.is_nan())) || r0.pos != r1.pos {
                    bad.lock().unwrap().push(("affine_map".into(), format!("Normal<f64>({mean:e},{sd:e}).sample = {y:e} but mean + std_dev*StandardNormal = {e:e} on the same stream (words {} vs {})", r1.pos, r0.pos), json!({"mean": mean, "sd": sd, "seed": seed, "ft": "f64"})));
                }
            }
            // f32
            {
                let (m, s, zf) = (mean as f32, sd as f32, z as f32);
                let d = Normal::<f32>::new(m, s).unwrap();
                let got = d.from_zscore(zf);
                let exp = m + s * zf;
                if got.to_bits() != exp.to_bits() && !(got.is_nan() && exp.is_nan()) {
                    bad.lock().unwrap().push(("from_zscore".into(), format!("Normal<f32>({m:e},{s:e}).from_zscore({zf:e}) = {got:e}, mean + std_dev*z = {exp:e}"), json!({"mean": m, "sd": s, "z_bits": zf.to_bits(), "ft": "f32"})));
                }
                let seed = hseed(&[ctx.seed, chunk, i, 32]);
                let (mut r0, mut r1) = (VRng::from_env(seed), VRng::from_env(seed));
                let zz: f32 = StandardNormal.sample(&mut r0);
                let y: f32 = d.sample(&mut r1);
                let e = m + s * zz;
                if (y.to_bits() != e.to_bits() && !(y.is_nan() && e.is_nan())) || r0.pos != r1.pos {
                    bad.lock().unwrap().push(("affine_map".into(), format!("Normal<f32>({m:e},{s:e}).sample = {y:e} but mean + std_dev*StandardNormal = {e:e} on the same stream"), json!({"mean": m, "sd": s, "seed": seed, "ft": "f32"})));
                }
                let (m2, s2) = ((mean / 200.0) as f32, (sd.abs().min(3.0)) as f32);
                let ln = LogNormal::<f32>::new(m2, s2).unwrap();
                let (mut r0, mut r1) = (VRng::from_env(seed), VRng::from_env(seed));
                let zz: f32 = StandardNormal.sample(&mut r0);
                let y: f32 = ln.sample(&mut r1);
                let e = (m2 + s2 * zz).exp();
                if (y.to_bits() != e.to_bits() && !(y.is_nan() && e.is_nan())) || r0.pos != r1.pos {
                    bad.lock().unwrap().push(("affine_map".into(), format!("LogNormal<f32>({m2:e},{s2:e}).sample = {y:e} but exp(mu + sigma*StandardNormal) = {e:e} on the same stream"), json!({"mean": m2, "sd": s2, "seed": seed, "ft": "f32", "log": true})));
                }
            }
        }
    });
    ctx.eval(n * 5);
    ctx.nontrivial_add(n * 5);
    ctx.class("zscore_and_exact_normal_cases", n * 5);
    for (sym, msg, case) in bad.into_inner().unwrap().into_iter().take(50) {
        ctx.violation(Violation {
            property: ctx.property.clone(),
            family: if case.get("log").is_some() { "LogNormal".into() } else { "Normal".into() },
            float: case["ft"].as_str().unwrap_or("f64").to_string(),
            symptom: sym,
            trigger: "zscore".into(),
            what: msg,
            case: json!({"kind": "zscore", "z": case}),
        });
    }
    let _ = Val::U64(0);
}

pub fn replay(ctx: &Ctx, case: &Value) -> bool {
    if let Ok(c) = serde_json::from_value::<AffineCase>(case["affine"].clone()) {
        ctx.eval(1);
        let res = run_case(&c);
        if let Some((sym, msg)) = res.violation {
            report(ctx, &c, &sym, &msg);
        }
        return true;
    }
    false
}
