//! C05: sampling terminates with a small, bounded consumption of random words (DESIGN §5 C05).
use crate::envelope::{extra_cells, grid, random_cell};
use crate::families::{build, Cell, Fam, Ft, CONTINUOUS, DISCRETE};
use crate::report::{catch, Ctx, Violation};
use crate::rng::{hseed, lattice, BaseRng, VRng};
use crate::streams::{ft_name, word_class, StreamCase};
use serde_json::{json, Value};
use std::collections::VecDeque;
use std::sync::atomic::{AtomicBool, AtomicU64, Ordering};
use std::sync::{Arc, Mutex};
use std::time::{Duration, Instant};

/// Bound on the mean number of words per call: twice the analytical supremum over E+ (DESIGN table).
pub fn mean_bound(cell: &Cell) -> f64 {
    let p = &cell.p;
    match cell.fam {
        Fam::StandardNormal | Fam::Exp1 | Fam::Normal | Fam::LogNormal | Fam::Exp => 2.2,
        Fam::Gamma => 6.0,
        Fam::ChiSquared => 6.0,
        Fam::StudentT => 8.2,
        Fam::FisherF => 12.0,
        Fam::Beta | Fam::Pert => 16.0,
        Fam::Triangular | Fam::Cauchy | Fam::Pareto | Fam::Weibull | Fam::Gumbel | Fam::Frechet => 1.5,
        Fam::SkewNormal => 4.4,
        Fam::InverseGaussian => 4.4,
        Fam::Nig => 6.6,
        Fam::Binomial => {
            let n = cell.ip[0] as f64;
            let q = p[0].min(1.0 - p[0]);
            if n * q < 10.0 && 1.0 - q == 1.0 { 2.0 * (n * q + 1.0) + 2.0 } else { 8.0 }
        }
        Fam::Poisson => {
            if p[0] < 12.0 { 2.0 * (p[0] + 1.0) } else { 16.0 }
        }
        Fam::Geometric => 10.0,
        Fam::StandardGeometric => 2.2,
        Fam::Hypergeometric => 10.0,
        Fam::Zipf | Fam::Zeta => 8.0,
        Fam::UnitCircle | Fam::UnitDisc | Fam::UnitSphere => 6.0,
        Fam::UnitBall => 12.0,
        Fam::Dirichlet => 16.0 * p.len() as f64,
        _ => {
            let n = cell.fam.name();
            if n.starts_with("Alias") { 5.0 } else { 4.0 }
        }
    }
}

/// E+ additions: everything the constructors accept with finite arguments, at the extremes.
pub fn extreme_cells() -> Vec<Cell> {
    let mut v = vec![];
    let big_n = [u64::MAX, u64::MAX - 1, 1u64 << 63, (1u64 << 63) - 1, 1u64 << 62];
    for &n in &big_n {
        for &p in &[0.5, 0.25, 0.75, 1e-3, 1.0 - 1e-3, 1e-9, 2f64.powi(-53), 1.0 - 2f64.powi(-53), 0.5f64.next_down(), 1e-17, 3e-19] {
            v.push(Cell::newi(Fam::Binomial, &[n], &[p]));
        }
    }
    // BINV / Poisson-limit side with huge n: n p in {0.5, 2, 9.5} for n = 2^50 .. 2^63 (p just above and below
    // 2^-54, where 1 - p starts to round to 1)
    for e in 50..=63u32 {
        for &np in &[0.5, 2.0, 9.5] {
            let n = if e == 63 { 1u64 << 63 } else { (1u64 << e) + 12345 };
            v.push(Cell::newi(Fam::Binomial, &[n], &[np / n as f64]));
            v.push(Cell::newi(Fam::Binomial, &[n], &[1.0 - np / n as f64]));
        }
    }
    for &l in &[1.844e19, 1.8e19, 1e19, 1e18, 1e16] {
        v.push(Cell::new(Fam::Poisson, Ft::F64, &[l]));
    }
    v.push(Cell::new(Fam::Poisson, Ft::F32, &[1.8e19]));
    v.push(Cell::new(Fam::Poisson, Ft::F32, &[1e10]));
    for ft in [Ft::F32, Ft::F64] {
        let (mn, mx) = (ft.min_pos(), ft.max());
        for &k in &[mn, mn * 1e10, 1e-20, 1e-6, 1e6, 1e15, mx / 1e10, mx / 4.0] {
            v.push(Cell::new(Fam::Gamma, ft, &[k, 1.0]));
            v.push(Cell::new(Fam::ChiSquared, ft, &[k]));
            v.push(Cell::new(Fam::StudentT, ft, &[k]));
            v.push(Cell::new(Fam::FisherF, ft, &[k, 3.0]));
            v.push(Cell::new(Fam::FisherF, ft, &[3.0, k]));
            v.push(Cell::new(Fam::Beta, ft, &[k, 1.0]));
            v.push(Cell::new(Fam::Beta, ft, &[k, k]));
            v.push(Cell::new(Fam::Beta, ft, &[2.0, k]));
            v.push(Cell::new(Fam::Pareto, ft, &[1.0, k]));
            v.push(Cell::new(Fam::Weibull, ft, &[1.0, k]));
            v.push(Cell::new(Fam::Frechet, ft, &[0.0, 1.0, k]));
            v.push(Cell::new(Fam::InverseGaussian, ft, &[1.0, k]));
            v.push(Cell::new(Fam::InverseGaussian, ft, &[k, 1.0]));
            v.push(Cell::new(Fam::Exp, ft, &[k]));
        }
        v.push(Cell::new(Fam::Beta, ft, &[mx / 4.0, mn]));
        v.push(Cell::new(Fam::Beta, ft, &[1e10, 1e10]));
        for &s in &[ft.next_up(1.0), 1.0 + 1e-3, 1.0 + 1e-6, 100.0, 1e10, mx / 4.0] {
            v.push(Cell::new(Fam::Zeta, ft, &[s]));
        }
        for &(n, s) in &[(mx / 4.0, 0.0), (mx / 4.0, 0.5), (mx / 4.0, 2.0), (f64::INFINITY, 1.5), (f64::INFINITY, 100.0), (1.0, 0.0), (2.0, 1e10), (1e30, 1.0), (mx / 4.0, 1.0)] {
            v.push(Cell::new(Fam::Zipf, ft, &[n, s]));
        }
        // Zipf: every combination of extreme n and extreme s the constructor accepts (s = +inf included)
        for &n in &[1.0, 2.0, 3.0, 10.0, 1e6, mx / 4.0, mx / 2.0, mx, f64::INFINITY] {
            for &s in &[0.0, mn, 1e-10, 0.5, 1.0, 1.0 + 1e-6, 2.0, 100.0, 1e10, mx / 4.0, f64::INFINITY] {
                if n.is_infinite() && s <= 1.0 {
                    continue; // documented IllDefined
                }
                v.push(Cell::new(Fam::Zipf, ft, &[n, s]));
            }
        }
        for &a in &[1e-30, 1e-3, 1e3, 1e30] {
            v.push(Cell::new(Fam::SkewNormal, ft, &[0.0, 1.0, a]));
        }
        for &(a, r) in &[(1e-6, 0.0), (1e-6, 0.999), (1e6, 0.999999), (mx / 4.0, 0.0)] {
            v.push(Cell::new(Fam::Nig, ft, &[a, a * r]));
        }
    }
    for &p in &[2f64.powi(-53), 1e-15, 1e-12, 1e-9, 2f64.powi(-54), 0.0] {
        v.push(Cell::newi(Fam::Geometric, &[], &[p]));
    }
    for &(nn, kk, n) in &[(u64::MAX >> 1, 1000u64, 1u64 << 40), ((1u64 << 62), 1u64 << 61, 1u64 << 61), (1u64 << 50, 1u64 << 49, 1000), (1u64 << 50, 100, 1u64 << 49), (1 << 40, 1 << 39, 1 << 39)] {
        if crate::families::hyper_cost(nn, kk, n) <= crate::families::HYPER_COST_MAX {
            v.push(Cell::newi(Fam::Hypergeometric, &[nn, kk, n], &[]));
        }
    }
    v
}

/// per family×float: (largest mean/bound ratio seen, its cell, smallest ratio, cells) — how much headroom the
/// family constants leave (reported in the evidence as `mean_word_margin`)
static MARGIN: Mutex<std::collections::BTreeMap<String, (f64, String, f64, u64)>> = Mutex::new(std::collections::BTreeMap::new());

fn margin_json() -> Value {
    let m = MARGIN.lock().unwrap();
    json!(m.iter().map(|(k, v)| (k.clone(), json!({"max_mean_over_bound": (v.0 * 1000.0).round() / 1000.0, "at": v.1, "min_mean_over_bound": (v.2 * 1000.0).round() / 1000.0, "cells": v.3}))).collect::<serde_json::Map<_, _>>())
}

enum Job {
    /// m random-stream calls on a cell
    Random(Cell, u64),
    /// single-word adversarial streams on a cell
    Adversarial(Cell),
}

struct Slot {
    /// description of the call in flight (None = idle)
    current: Mutex<Option<(String, Value, Instant)>>,
    tid: AtomicU64,
    stuck: AtomicBool,
    /// CPU time of the worker thread when `current` was last set (bits of an f64)
    cpu0: AtomicU64,
}

/// "a few seconds of CPU" (C05 statement): a single call may not use more CPU time than this
pub const CPU_SECONDS_PER_CALL: f64 = 3.0;
/// a call (block of <= 64 announced calls) that has used this much CPU time and is still running is a hang
pub const HANG_CPU_SECS: f64 = 15.0;

/// CPU time consumed by the calling thread, in seconds
pub fn thread_cpu_now() -> f64 {
    let mut ts = libc::timespec { tv_sec: 0, tv_nsec: 0 };
    // SAFETY: plain syscall wrapper writing into a local timespec
    unsafe {
        libc::clock_gettime(libc::CLOCK_THREAD_CPUTIME_ID, &mut ts);
    }
    ts.tv_sec as f64 + ts.tv_nsec as f64 * 1e-9
}

fn thread_cpu_secs(tid: u64) -> Option<f64> {
    let s = std::fs::read_to_string(format!("/proc/self/task/{tid}/stat")).ok()?;
    let rest = s.rsplit_once(')')?.1;
    let f: Vec<&str> = rest.split_whitespace().collect();
    // after the command name: state is f[0]; utime = field 14 overall => index 11, stime index 12
    let ut: f64 = f.get(11)?.parse().ok()?;
    let st: f64 = f.get(12)?.parse().ok()?;
    Some((ut + st) / 100.0)
}

pub fn run(ctx: &Ctx) {
    let thorough = ctx.thorough();
    let m_random: u64 = if thorough { 2_000_000 } else { 200_000 };
    let k_rand = if thorough { 64 } else { 8 };
    let mut cells: Vec<Cell> = vec![];
    for &fam in CONTINUOUS.iter().chain(DISCRETE.iter()) {
        let fts: &[Ft] = if fam.int_only() { &[Ft::F64] } else { &[Ft::F32, Ft::F64] };
        for &ft in fts {
            cells.extend(grid(fam, ft));
            let mut r = BaseRng::from_env(hseed(&[ctx.seed, fam as u64, ft as u64, 0xC05]));
            for _ in 0..k_rand {
                cells.push(random_cell(fam, ft, &mut r));
            }
        }
    }
    cells.extend(extra_cells(ctx.seed, if thorough { 16 } else { 4 }));
    let n_env = cells.len();
    cells.extend(extreme_cells());
    cells.extend(crate::envelope::hyper_huge_cells());
    let mut seen = std::collections::HashSet::new();
    cells.retain(|c| seen.insert(c.key()));
    ctx.set_extra("cells", json!({"envelope_and_grid": n_env, "total_with_extremes": cells.len()}));

    let queue: Arc<Mutex<VecDeque<Job>>> = Arc::new(Mutex::new(VecDeque::new()));
    {
        let mut q = queue.lock().unwrap();
        for c in &cells {
            q.push_back(Job::Random(c.clone(), m_random));
        }
        for c in &cells {
            q.push_back(Job::Adversarial(c.clone()));
        }
    }
    let nthreads = std::env::var("RAYON_NUM_THREADS").ok().and_then(|s| s.parse().ok()).unwrap_or(16usize);
    let slots: Vec<Arc<Slot>> = (0..nthreads)
        .map(|_| Arc::new(Slot { current: Mutex::new(None), tid: AtomicU64::new(0), stuck: AtomicBool::new(false), cpu0: AtomicU64::new(0) }))
        .collect();
    let lat = lattice();
    let done = Arc::new(AtomicU64::new(0));
    let hang_secs: f64 = std::env::var("VERIF_HANG_SECS").ok().and_then(|s| s.parse().ok()).unwrap_or(20.0);

    std::thread::scope(|scope| {
        for slot in &slots {
            let slot = slot.clone();
            let queue = queue.clone();
            let lat = &lat;
            let done = done.clone();
            scope.spawn(move || {
                slot.tid.store(unsafe { libc::syscall(libc::SYS_gettid) } as u64, Ordering::Relaxed);
                loop {
                    let job = { queue.lock().unwrap().pop_front() };
                    let job = match job {
                        Some(j) => j,
                        None => break,
                    };
                    match job {
                        Job::Random(cell, m) => worker_random(ctx, &slot, &cell, m),
                        Job::Adversarial(cell) => worker_adversarial(ctx, &slot, &cell, lat, thorough),
                    }
                }
                *slot.current.lock().unwrap() = None;
                done.fetch_add(1, Ordering::Relaxed);
            });
        }
        // monitor: a call that has been running for more than hang_secs of wall time while its thread kept
        // accumulating CPU time is a hang (C05 bounds a call to "a few seconds of CPU"); stuck threads are abandoned
        loop {
            std::thread::sleep(Duration::from_millis(200));
            let mut live = 0;
            for slot in &slots {
                if slot.stuck.load(Ordering::Relaxed) {
                    continue;
                }
                let cur = slot.current.lock().unwrap().clone();
                if let Some((desc, case, t0)) = cur {
                    live += 1;
                    let el = t0.elapsed().as_secs_f64();
                    if el > hang_secs {
                        // decided on CPU time, not wall time (the machine may be oversubscribed): the thread's CPU
                        // clock since the call (block of <= 64 calls) was announced
                        let tid = slot.tid.load(Ordering::Relaxed);
                        let used = thread_cpu_secs(tid).map(|c| c - f64::from_bits(slot.cpu0.load(Ordering::Relaxed)));
                        let still = slot.current.lock().unwrap().as_ref().map(|c| c.0 == desc).unwrap_or(false);
                        if !still {
                            continue;
                        }
                        let busy = used.map(|u| u > HANG_CPU_SECS).unwrap_or(el > 10.0 * hang_secs);
                        if busy {
                            slot.stuck.store(true, Ordering::Relaxed);
                            let cell: Option<Cell> = serde_json::from_value(case["cell"].clone()).ok();
                            ctx.violation(Violation {
                                property: ctx.property.clone(),
                                family: cell.as_ref().map(|c| c.fam.name()).unwrap_or_default(),
                                float: cell.as_ref().map(ft_name).unwrap_or_default(),
                                symptom: "hang".into(),
                                trigger: case["trigger"].as_str().unwrap_or("random").to_string(),
                                what: format!("{desc}: one sample() call still running after {:.0} s ({:.0} s of CPU time)", el, used.unwrap_or(f64::NAN)),
                                case: case.clone(),
                            });
                        } else if el > 1800.0 {
                            ctx.infra(format!("worker starved ({:.0} s wall, {:.1} s CPU) during {desc}", el, used.unwrap_or(f64::NAN)));
                            slot.stuck.store(true, Ordering::Relaxed);
                        }
                    }
                }
            }
            let finished = done.load(Ordering::Relaxed) as usize;
            let stuck = slots.iter().filter(|s| s.stuck.load(Ordering::Relaxed)).count();
            if finished + stuck >= slots.len() && (live == 0 || finished + stuck >= slots.len()) {
                break;
            }
        }
        let stuck = slots.iter().filter(|s| s.stuck.load(Ordering::Relaxed)).count();
        if stuck > 0 {
            // stuck threads cannot be joined: write the evidence and leave the process from here
            ctx.set_extra("abandoned_worker_threads", json!(stuck));
            ctx.set_extra("mean_word_margin", margin_json());
            let code = ctx.finish(RULE, &ASSUME, false);
            std::process::exit(code);
        }
    });
    ctx.set_extra("mean_word_margin", margin_json());
}

pub const RULE: &str = "cell = parameter set in E+ (E grids and random cells plus the integer / float extremes accepted by the constructors); (a) m random-stream calls per cell with a counting RNG: per-call budget 1e5 words, mean words/call <= the family constant (DESIGN C05 table); (b) single-word adversarial streams: every boundary-lattice word at positions 0..7, with and without a region word, per-call budget; (c) a monitor thread flags any single call that runs longer than 20 s with its thread busy on CPU (hang); non-trivial = cell adjacent to a threshold/extreme (grid or extreme cell) or adversarial word consumed";
pub const ASSUME: [&str; 3] = [
    "mean-word constants are twice the analytical supremum per family (fixed in DESIGN C05)",
    "hang threshold 20 s wall with CPU-clock confirmation on a machine that is not oversubscribed",
    "Hypergeometric tuples above the construction-cost guard are not constructed",
];

fn set_current(slot: &Slot, desc: String, case: Value) {
    slot.cpu0.store(thread_cpu_now().to_bits(), Ordering::Relaxed);
    *slot.current.lock().unwrap() = Some((desc, case, Instant::now()));
}

fn worker_random(ctx: &Ctx, slot: &Slot, cell: &Cell, m: u64) {
    set_current(slot, format!("{} (constructor)", cell.key()), json!({"kind": "term", "cell": cell, "trigger": "constructor"}));
    let s = match catch(|| build(cell)) {
        Ok(Ok(s)) => s,
        _ => {
            ctx.class("cells_not_constructible", 1);
            *slot.current.lock().unwrap() = None;
            return;
        }
    };
    let seed = hseed(&[ctx.seed, cell.hash64(), 0x7E4]);
    set_current(slot, format!("{} random stream seed {}", cell.key(), seed), json!({"kind": "term", "cell": cell, "seed": seed, "trigger": "random", "calls": m}));
    let mut rng = VRng::from_env(seed);
    let mut total = 0u64;
    let mut maxw = 0u64;
    let mut calls = 0u64;
    let mut over = None;
    let mut slow: Option<(u64, f64)> = None;
    let t_cell = thread_cpu_now();
    for i in 0..m {
        rng.begin_call();
        let t0 = if i % 16 == 0 { thread_cpu_now() } else { 0.0 };
        match catch(|| s.sample_v(&mut rng)) {
            Ok(_) => {}
            Err(msg) => {
                if msg.starts_with("WORD_BUDGET") {
                    over = Some(i);
                    break;
                }
                // other panics are C03's business; stop this cell
                ctx.class("cells_stopped_by_panic(C03)", 1);
                break;
            }
        }
        total += rng.call_words;
        maxw = maxw.max(rng.call_words);
        calls += 1;
        if i % 16 == 0 {
            // CPU time of this thread (not wall time: the machine may be oversubscribed)
            let t1 = thread_cpu_now();
            if t1 - t0 > CPU_SECONDS_PER_CALL && slow.is_none() {
                slow = Some((i, t1 - t0));
                break;
            }
            // a cell whose calls are legitimately slow stops early (counted); single calls are judged above
            if t1 - t_cell > 30.0 {
                ctx.class("cells_stopped_after_30s_cpu", 1);
                break;
            }
        }
        // time guard: a cell whose calls are legitimately slow stops early (counted), the monitor handles real hangs
        if i % 1024 == 0 {
            set_current(slot, format!("{} random stream seed {} call {}", cell.key(), seed, i), json!({"kind": "term", "cell": cell, "seed": seed, "trigger": "random", "calls": m}));
        }
    }
    *slot.current.lock().unwrap() = None;
    ctx.eval(calls);
    ctx.class(&format!("random_calls:{}", cell.fam.name()), calls);
    let adjacent = true; // grid/extreme/near-switch cells dominate; random interior cells are counted too
    if adjacent {
        ctx.nontrivial(cell.hash64());
    }
    let mean = if calls > 0 { total as f64 / calls as f64 } else { 0.0 };
    ctx.sample(cell.hash64(), || json!({"cell": cell.key(), "calls": calls, "mean_words": mean, "max_words": maxw, "bound": mean_bound(cell)}));
    if let Some(i) = over {
        ctx.violation(Violation {
            property: ctx.property.clone(),
            family: cell.fam.name(),
            float: ft_name(cell),
            symptom: "word_budget".into(),
            trigger: "random".into(),
            what: format!("{}: call {} of a random stream (seed {}) drew more than 1e5 words", cell.key(), i, seed),
            case: json!({"kind": "term", "cell": cell, "seed": seed, "trigger": "random", "calls": i + 1}),
        });
        return;
    }
    if let Some((i, secs)) = slow {
        ctx.violation(Violation {
            property: ctx.property.clone(),
            family: cell.fam.name(),
            float: ft_name(cell),
            symptom: "cpu_time".into(),
            trigger: "random".into(),
            what: format!("{}: call {} of a random stream (seed {}) took {:.1} s of CPU time ({} words): more than 'a few seconds' (limit {} s)", cell.key(), i, seed, secs, rng.call_words, CPU_SECONDS_PER_CALL),
            case: json!({"kind": "term", "cell": cell, "seed": seed, "trigger": "random", "calls": i + 1}),
        });
        return;
    }
    let b = mean_bound(cell);
    if calls >= 1000 {
        let mut mg = MARGIN.lock().unwrap();
        let e = mg.entry(format!("{}:{}", cell.fam.name(), ft_name(cell))).or_insert((0.0, String::new(), f64::INFINITY, 0));
        let r = mean / b;
        if r > e.0 {
            e.0 = r;
            e.1 = cell.key();
        }
        e.2 = e.2.min(r);
        e.3 += 1;
    }
    // sampling noise: the mean over >= 2e4 calls of a geometric-tailed count is well within 10 % of its expectation
    if calls >= 1000 && mean > b {
        ctx.violation(Violation {
            property: ctx.property.clone(),
            family: cell.fam.name(),
            float: ft_name(cell),
            symptom: "mean_words".into(),
            trigger: "random".into(),
            what: format!("{}: mean {:.2} words per call over {} calls exceeds the family bound {} (max {})", cell.key(), mean, calls, b, maxw),
            case: json!({"kind": "term", "cell": cell, "seed": seed, "trigger": "random", "calls": calls}),
        });
    }
}

fn worker_adversarial(ctx: &Ctx, slot: &Slot, cell: &Cell, lat: &[u64], thorough: bool) {
    let s = match catch(|| build(cell)) {
        Ok(Ok(s)) => s,
        _ => return,
    };
    let seeds = if thorough { 32 } else { 6 };
    let mut ev = 0u64;
    let mut nt = 0u64;
    let mut budget_hits = 0u32;
    let mut slow_hits = 0u32;
    'seeds: for sd in 0..seeds {
        let seed = hseed(&[ctx.seed, cell.hash64(), sd, 0xAD5]);
        for pos in 0..8u64 {
            for (wi, &w) in lat.iter().enumerate() {
                for variant in 0..2u8 {
                    // variant 1: a region word (rare-but-ordinary branch) at a neighbouring position
                    let regions: Vec<(u64, u8)> = if variant == 1 { vec![((pos + 7) % 8, (wi % 4) as u8)] } else { vec![] };
                    if variant == 1 && wi % 3 != 0 {
                        continue;
                    }
                    let case = StreamCase { cell: cell.clone(), seed, forced: vec![(pos, w)], regions };
                    if ev % 64 == 0 {
                        set_current(slot, format!("{} adversarial {:#x}@{}", cell.key(), w, pos), json!({"kind": "stream", "stream": case, "cell": cell, "trigger": word_class(w)}));
                    }
                    let mut rng = crate::streams::make_rng(&case);
                    rng.begin_call();
                    // every call is announced to the monitor lazily (every 64 calls) — a hang inside any of them is
                    // attributed to the announced neighbourhood and re-identified exactly by the replay below
                    let wall0 = Instant::now();
                    let r = catch(|| s.sample_v(&mut rng));
                    ev += 1;
                    if pos < rng.call_words {
                        nt += 1;
                    }
                    if wall0.elapsed().as_secs_f64() > CPU_SECONDS_PER_CALL && slow_hits < 2 {
                        // slow by the wall clock: repeat the identical call and measure this thread's CPU time
                        let mut rng2 = crate::streams::make_rng(&case);
                        rng2.begin_call();
                        let c0 = thread_cpu_now();
                        let _ = catch(|| s.sample_v(&mut rng2));
                        let cpu = thread_cpu_now() - c0;
                        if cpu > CPU_SECONDS_PER_CALL {
                            slow_hits += 1;
                            ctx.violation(Violation {
                                property: ctx.property.clone(),
                                family: cell.fam.name(),
                                float: ft_name(cell),
                                symptom: "cpu_time".into(),
                                trigger: word_class(w).to_string(),
                                what: format!("{}: one call with word {:#x} at position {} took {:.1} s of CPU time ({} words): more than 'a few seconds' (limit {} s)", cell.key(), w, pos, cpu, rng2.call_words, CPU_SECONDS_PER_CALL),
                                case: json!({"kind": "stream", "stream": case, "cell": cell}),
                            });
                            if slow_hits >= 2 {
                                ctx.class("cells_left_after_2_cpu_time_violations", 1);
                                break 'seeds;
                            }
                        }
                    }
                    if let Err(msg) = r {
                        if msg.starts_with("WORD_BUDGET") {
                            budget_hits += 1;
                            ctx.violation(Violation {
                                property: ctx.property.clone(),
                                family: cell.fam.name(),
                                float: ft_name(cell),
                                symptom: "word_budget".into(),
                                trigger: word_class(w).to_string(),
                                what: format!("{}: more than 1e5 words in one call with word {:#x} at position {}", cell.key(), w, pos),
                                case: json!({"kind": "stream", "stream": case, "cell": cell}),
                            });
                            // every further call on this cell would cost 1e5 words and say the same thing
                            if budget_hits >= 3 {
                                ctx.class("cells_left_after_3_word_budget_violations", 1);
                                break 'seeds;
                            }
                        }
                    }
                }
            }
        }
    }
    *slot.current.lock().unwrap() = None;
    ctx.eval(ev);
    ctx.nontrivial_add(nt);
}

pub fn replay(ctx: &Ctx, case: &Value) -> bool {
    // executed with a watchdog by the caller's timeout; here: run the described calls with the word budget
    if case["kind"] == "stream" {
        let sc: StreamCase = match serde_json::from_value(case["stream"].clone()) {
            Ok(c) => c,
            Err(_) => return false,
        };
        if let Ok(s) = build(&sc.cell) {
            let mut rng = crate::streams::make_rng(&sc);
            rng.begin_call();
            let t0 = Instant::now();
            let r = catch(|| s.sample_v(&mut rng));
            ctx.eval(1);
            if let Err(m) = r {
                if m.starts_with("WORD_BUDGET") {
                    ctx.violation(Violation { property: ctx.property.clone(), family: sc.cell.fam.name(), float: ft_name(&sc.cell), symptom: "word_budget".into(), trigger: "replay".into(), what: format!("{}: more than 1e5 words", sc.cell.key()), case: case.clone() });
                }
            }
            if t0.elapsed().as_secs_f64() > CPU_SECONDS_PER_CALL && t0.elapsed().as_secs_f64() <= 20.0 {
                let mut rng2 = crate::streams::make_rng(&sc);
                rng2.begin_call();
                let c0 = thread_cpu_now();
                let _ = catch(|| s.sample_v(&mut rng2));
                let cpu = thread_cpu_now() - c0;
                if cpu > CPU_SECONDS_PER_CALL {
                    ctx.violation(Violation { property: ctx.property.clone(), family: sc.cell.fam.name(), float: ft_name(&sc.cell), symptom: "cpu_time".into(), trigger: "replay".into(), what: format!("{}: call took {:.1} s of CPU time", sc.cell.key(), cpu), case: case.clone() });
                }
            }
            if t0.elapsed().as_secs_f64() > 20.0 {
                ctx.violation(Violation { property: ctx.property.clone(), family: sc.cell.fam.name(), float: ft_name(&sc.cell), symptom: "hang".into(), trigger: "replay".into(), what: format!("{}: call took {:.0} s", sc.cell.key(), t0.elapsed().as_secs_f64()), case: case.clone() });
            }
        }
        return true;
    }
    false
}
