//! C03: every sample lies in the support and sampling never panics, under single-word-adversarial
//! streams and the exhaustive f32 high-bit sweep (DESIGN §5 C03).
use crate::envelope::{extra_cells, grid, random_cell};
use crate::families::{build, Cell, Fam, Ft, Sampler, CONTINUOUS, DISCRETE};
use crate::report::{catch, Ctx, Violation};
use crate::rng::{hseed, lattice, lattice_for_range, mix, region_word, BaseRng, VRng};
use crate::support::check_val;
use rayon::prelude::*;
use serde::{Deserialize, Serialize};
use serde_json::{json, Value};
use std::sync::atomic::{AtomicU64, Ordering};

#[derive(Clone, Debug, Serialize, Deserialize)]
pub struct StreamCase {
    pub cell: Cell,
    pub seed: u64,
    /// (position, word) forced into the stream; at most one lattice word
    pub forced: Vec<(u64, u64)>,
    /// (position, region kind): region words derived from the seed
    #[serde(default)]
    pub regions: Vec<(u64, u8)>,
}

pub fn ft_name(c: &Cell) -> String {
    if c.fam.int_only() {
        "-".into()
    } else if c.ft == Ft::F32 {
        "f32".into()
    } else {
        "f64".into()
    }
}

pub fn word_class(w: u64) -> &'static str {
    if w >> 11 == (1u64 << 53) - 1 {
        "u64:max53"
    } else if w >> 40 == (1u64 << 24) - 1 {
        "u32:max24"
    } else if w >> 11 == 0 {
        "u64:zero53"
    } else if w >> 40 == 0 {
        "u32:zero24"
    } else if w >> 41 == (1u64 << 23) - 1 {
        "u32:max23"
    } else if w >> 12 == (1u64 << 52) - 1 {
        "u64:max52"
    } else if w >> 63 == 1 && (w << 1) >> 12 == 0 {
        "half"
    } else {
        "other"
    }
}

pub struct CaseResult {
    pub words: u64,
    pub consumed_forced: bool,
    pub violation: Option<(String, String)>,
}

pub fn make_rng(case: &StreamCase) -> VRng {
    let mut rng = VRng::from_env(case.seed);
    for &(p, w) in &case.forced {
        rng.force(p, w);
    }
    for &(p, k) in &case.regions {
        rng.force(p, region_word(k, mix(case.seed ^ (p << 8) ^ k as u64)));
    }
    rng
}

/// One sample() call under the scripted stream.
pub fn run_case(s: &dyn Sampler, case: &StreamCase) -> CaseResult {
    let mut rng = make_rng(case);
    rng.begin_call();
    let r = catch(|| s.sample_v(&mut rng));
    let words = rng.call_words;
    let consumed = case.forced.iter().all(|&(p, _)| p < words);
    let violation = match r {
        Err(msg) => {
            if msg.starts_with("WORD_BUDGET") {
                Some(("word_budget".to_string(), format!("{}: more than 1e5 words in one call", case.cell.key())))
            } else if msg.contains("target_weight < self.get(index)") {
                // the float-tree descent assertion (known finding C10-tree-float-assert): keyed on the assertion text
                Some(("panic_assert_target".to_string(), format!("{}: panic: {}", case.cell.key(), msg.lines().next().unwrap_or(""))))
            } else {
                Some(("panic".to_string(), format!("{}: panic: {}", case.cell.key(), msg.lines().next().unwrap_or(""))))
            }
        }
        Ok(v) => check_val(&case.cell, &v),
    };
    CaseResult {
        words,
        consumed_forced: consumed,
        violation,
    }
}

pub fn trigger_of(case: &StreamCase) -> String {
    // the class of the adversarial word only: position and region words are part of the case, not of the root cause
    match case.forced.first() {
        Some(&(_, w)) => word_class(w).to_string(),
        None => "random".to_string(),
    }
}

pub fn report(ctx: &Ctx, case: &StreamCase, sym: &str, msg: &str) {
    ctx.violation(Violation {
        property: ctx.property.clone(),
        family: case.cell.fam.name(),
        float: ft_name(&case.cell),
        symptom: sym.to_string(),
        trigger: trigger_of(case),
        what: msg.to_string(),
        case: json!({"kind": "stream", "stream": case, "cell": case.cell}),
    });
}

pub fn c03_cells(ctx: &Ctx) -> Vec<Cell> {
    let k_rand = if ctx.thorough() { 64 } else { 8 };
    let mut cells = vec![];
    for &fam in CONTINUOUS.iter().chain(DISCRETE.iter()) {
        let fts: &[Ft] = if fam.int_only() { &[Ft::F64] } else { &[Ft::F32, Ft::F64] };
        for &ft in fts {
            cells.extend(grid(fam, ft));
            let mut r = BaseRng::from_env(hseed(&[ctx.seed, fam as u64, ft as u64, 0xC03]));
            for _ in 0..k_rand {
                cells.push(random_cell(fam, ft, &mut r));
            }
        }
    }
    cells.extend(extra_cells(ctx.seed, if ctx.thorough() { 24 } else { 6 }));
    // integer extremes (the C03 statement's envelope is the C05 one: "every valid parameter set")
    cells.extend(crate::envelope::hyper_huge_cells());
    // the discrete families at the extremes the constructors accept (n = u64::MAX, n = inf, lambda near
    // MAX_LAMBDA, p = 2^-53): their supports are stated for every valid parameter set. The float-shape extremes
    // of C05's E+ (shape = MIN_POSITIVE, MAX/4) stay outside: there the documentation promises no finite result.
    cells.extend(crate::termination::extreme_cells().into_iter().filter(|c| matches!(c.fam, Fam::Binomial | Fam::Zipf | Fam::Zeta | Fam::Geometric | Fam::Hypergeometric | Fam::Poisson)));
    // documented-infinite special cases, asserted on every stream class (outside E, fixed)
    cells.push(Cell::new(Fam::Exp, Ft::F64, &[0.0]));
    cells.push(Cell::new(Fam::Exp, Ft::F32, &[0.0]));
    cells.push(Cell::new(Fam::Gamma, Ft::F64, &[f64::INFINITY, 2.0]));
    cells.push(Cell::new(Fam::Gamma, Ft::F64, &[2.0, f64::INFINITY]));
    // ... also on the small-shape branch, where the boost factor u^(1/shape) can underflow to 0 (0 * inf = NaN)
    for &k in &[0.01, 0.02, 0.05, 0.1, 0.5, 1.0] {
        cells.push(Cell::new(Fam::Gamma, Ft::F64, &[k, f64::INFINITY]));
        cells.push(Cell::new(Fam::Gamma, Ft::F32, &[k, f64::INFINITY]));
    }
    cells.push(Cell::new(Fam::Gamma, Ft::F32, &[f64::INFINITY, 2.0]));
    cells.push(Cell::new(Fam::Gamma, Ft::F32, &[2.0, f64::INFINITY]));
    let mut seen = std::collections::HashSet::new();
    cells.retain(|c| seen.insert(c.key()));
    cells
}

fn cell_lattice(cell: &Cell, base: &[u64]) -> Vec<u64> {
    let mut l = base.to_vec();
    // integer uniform draws of the weighted samplers: range-dependent boundary words
    let name = cell.fam.name();
    if name.starts_with("Alias") || name.starts_with("Tree") {
        let len = if cell.ip.is_empty() { cell.p.len() } else { cell.ip.len() } as u64;
        l.extend(lattice_for_range(len));
        let total: u64 = cell.ip.iter().fold(0u64, |a, &b| a.saturating_add(b));
        l.extend(lattice_for_range(total));
        l.extend(lattice_for_range(total.saturating_add(1)));
    }
    l
}

fn sym_is_fatal(_rng: &VRng) -> bool {
    false
}

pub fn run_c03(ctx: &Ctx) {
    let cells = c03_cells(ctx);
    let base_lat = lattice();
    let r_seeds: u64 = if ctx.thorough() { 128 } else { 6 };
    ctx.set_extra("cells", json!(cells.len()));
    ctx.set_extra("lattice_words", json!(base_lat.len()));
    ctx.set_extra("seeds_per_cell", json!(r_seeds));
    let consumed_hist: Vec<AtomicU64> = (0..8).map(|_| AtomicU64::new(0)).collect();
    cells.par_iter().for_each(|cell| {
        let s = match build(cell) {
            Ok(s) => s,
            Err(_) => {
                ctx.class("cells_not_constructible", 1);
                return;
            }
        };
        let lat = cell_lattice(cell, &base_lat);
        let mut evals = 0u64;
        let mut nontriv = 0u64;
        // a cell whose calls keep exhausting the 1e5-word budget is reported (three times) and then left:
        // every further call would cost 1e5 words and say the same thing
        let mut budget_hits = 0u32;
        'seeds: for sd in 0..r_seeds {
            let seed = hseed(&[ctx.seed, cell.hash64(), sd]);
            for pos in 0..8u64 {
                for &w in &lat {
                    let case = StreamCase { cell: cell.clone(), seed, forced: vec![(pos, w)], regions: vec![] };
                    let res = run_case(s.as_ref(), &case);
                    evals += 1;
                    if res.consumed_forced {
                        nontriv += 1;
                        consumed_hist[pos as usize].fetch_add(1, Ordering::Relaxed);
                    }
                    if let Some((sym, msg)) = res.violation {
                        report(ctx, &case, &sym, &msg);
                        if sym == "word_budget" {
                            budget_hits += 1;
                            if budget_hits >= 3 {
                                break 'seeds;
                            }
                        }
                    }
                    if sd == 0 && pos == 0 && w == lat[5] {
                        ctx.sample(cell.hash64(), || json!({"case": case, "words_consumed": res.words}));
                    }
                }
            }
            // region words: up to two rare-but-ordinary branch words plus one lattice word elsewhere
            for rk in 0..4u8 {
                for rp in 0..3u64 {
                    for pos in 0..4u64 {
                        if pos == rp {
                            continue;
                        }
                        for &w in lat.iter().step_by(7) {
                            let mut regions = vec![(rp, rk)];
                            if (w ^ seed) & 1 == 1 {
                                regions.push(((rp + 2) % 6, (rk + 1) % 4));
                            }
                            regions.retain(|&(p, _)| p != pos);
                            let case = StreamCase { cell: cell.clone(), seed, forced: vec![(pos, w)], regions };
                            let res = run_case(s.as_ref(), &case);
                            evals += 1;
                            if res.consumed_forced {
                                nontriv += 1;
                            }
                            if let Some((sym, msg)) = res.violation {
                                report(ctx, &case, &sym, &msg);
                            }
                        }
                    }
                }
            }
        }
        if budget_hits >= 3 {
            ctx.class("cells_left_after_3_word_budget_violations", 1);
            ctx.eval(evals);
            ctx.nontrivial_add(nontriv);
            ctx.class(&format!("cells:{}", cell.fam.name()), 1);
            return;
        }
        // ordinary random streams: rare-but-ordinary branches (rejection tails, region boundaries) at volume
        let m_rand: u64 = if ctx.thorough() { 2_000_000 } else { 100_000 };
        let seedr = hseed(&[ctx.seed, cell.hash64(), 0xAAD]);
        let mut rng = VRng::from_env(seedr);
        let mut reported = false;
        for i in 0..m_rand {
            rng.begin_call();
            let r = catch(|| s.sample_v(&mut rng));
            evals += 1;
            let viol = match r {
                Err(msg) => Some((if msg.starts_with("WORD_BUDGET") { "word_budget".to_string() } else if msg.contains("target_weight < self.get(index)") { "panic_assert_target".to_string() } else { "panic".to_string() }, format!("{}: panic: {}", cell.key(), msg.lines().next().unwrap_or("")))),
                Ok(v) => check_val(cell, &v),
            };
            if let Some((sym, msg)) = viol {
                let msg_is_budget = sym == "word_budget";
                if !reported {
                    // replay: same seed, i+1 calls
                    ctx.violation(Violation {
                        property: ctx.property.clone(),
                        family: cell.fam.name(),
                        float: ft_name(cell),
                        symptom: sym,
                        trigger: "random".into(),
                        what: format!("{msg} (call {i} of the random stream with seed {seedr})"),
                        case: json!({"kind": "stream_random", "cell": cell, "seed": seedr, "calls": i + 1}),
                    });
                    reported = true;
                }
                if sym_is_fatal(&rng) || msg_is_budget {
                    break;
                }
            }
        }
        ctx.class("random_stream_calls", m_rand);
        ctx.eval(evals);
        ctx.nontrivial_add(nontriv);
        ctx.class(&format!("cells:{}", cell.fam.name()), 1);
    });
    ctx.set_extra(
        "lattice_word_consumed_by_position",
        json!(consumed_hist.iter().map(|a| a.load(Ordering::Relaxed)).collect::<Vec<_>>()),
    );
    sweep_f32(ctx);
}

/// Exhaustive f32 sweep: all 2^24 high-bit patterns of the word at each consumed position.
pub fn sweep_f32(ctx: &Ctx) {
    let mut cells: Vec<Cell> = vec![];
    for &fam in CONTINUOUS.iter().chain(DISCRETE.iter()) {
        if fam.int_only() {
            continue;
        }
        let g = grid(fam, Ft::F32);
        let take = if ctx.thorough() { g.len() } else { 2.min(g.len()) };
        cells.extend(g.into_iter().take(take));
    }
    for fam in [Fam::UnitCircle, Fam::UnitDisc, Fam::UnitSphere, Fam::UnitBall] {
        cells.push(Cell::new(fam, Ft::F32, &[]));
    }
    cells.push(Cell::new(Fam::Dirichlet, Ft::F32, &[0.5, 2.0, 7.0]));
    cells.push(Cell::new(Fam::Dirichlet, Ft::F32, &[0.05, 0.05, 0.05]));
    cells.push(Cell::new(Fam::AliasF, Ft::F32, &[1.0, 0.0, 2.5]));
    cells.push(Cell::new(Fam::TreeF, Ft::F32, &[1.0, 0.0, 2.5]));
    let total_patterns = AtomicU64::new(0);
    for cell in &cells {
        let s = match build(cell) {
            Ok(s) => s,
            Err(_) => continue,
        };
        let seed = hseed(&[ctx.seed, cell.hash64(), 0x5EE9]);
        // probe: how many words does a typical call consume?
        let mut probe = VRng::from_env(seed);
        probe.begin_call();
        let _ = catch(|| s.sample_v(&mut probe));
        let maxpos = probe.call_words.clamp(1, 4);
        for pos in 0..maxpos {
            // quick: position 0 in full; later positions with stride 16 plus the top/bottom 2^12 patterns
            let full = ctx.thorough() || pos == 0;
            let blocks: Vec<(u64, Box<dyn Sampler>)> = (0..256u64).map(|b| (b, s.clone_box())).collect();
            let (ev, nt): (u64, u64) = blocks
                .into_par_iter()
                .map(|(b, s)| {
                    let mut ev = 0u64;
                    let mut nt = 0u64;
                    let base = VRng::mix(seed);
                    for i in 0..(1u64 << 16) {
                        let v = (b << 16) | i;
                        if !full && !(v % 16 == 0 || v < 4096 || v >= (1 << 24) - 4096) {
                            continue;
                        }
                        let low = mix(seed ^ v) & ((1u64 << 40) - 1);
                        let w = (v << 40) | low;
                        let mut rng = base.clone();
                        rng.force(pos, w);
                        rng.begin_call();
                        let r = catch(|| s.sample_v(&mut rng));
                        ev += 1;
                        if pos < rng.call_words {
                            nt += 1;
                        }
                        let viol = match r {
                            Err(msg) => Some((if msg.starts_with("WORD_BUDGET") { "word_budget".to_string() } else if msg.contains("target_weight < self.get(index)") { "panic_assert_target".to_string() } else { "panic".to_string() }, format!("{}: panic: {}", cell.key(), msg.lines().next().unwrap_or("")))),
                            Ok(val) => check_val(cell, &val),
                        };
                        if let Some((sym, msg)) = viol {
                            let case = StreamCase { cell: cell.clone(), seed, forced: vec![(pos, w)], regions: vec![] };
                            report(ctx, &case, &sym, &msg);
                        }
                    }
                    (ev, nt)
                })
                .reduce(|| (0, 0), |a, b| (a.0 + b.0, a.1 + b.1));
            ctx.eval(ev);
            ctx.nontrivial_add(nt);
            total_patterns.fetch_add(ev, Ordering::Relaxed);
            ctx.class(&format!("f32_sweep:{}:pos{}{}", cell.fam.name(), pos, if full { ":all_2^24" } else { ":strided" }), ev);
        }
    }
    ctx.set_extra("f32_sweep_patterns", json!(total_patterns.load(Ordering::Relaxed)));
}

pub fn replay(ctx: &Ctx, case: &Value) -> bool {
    if case["kind"] == "stream_random" {
        let cell: Cell = match serde_json::from_value(case["cell"].clone()) {
            Ok(c) => c,
            Err(_) => return false,
        };
        let (seed, calls) = (case["seed"].as_u64().unwrap_or(0), case["calls"].as_u64().unwrap_or(1));
        if let Ok(s) = build(&cell) {
            let mut rng = VRng::from_env(seed);
            for i in 0..calls {
                rng.begin_call();
                let r = catch(|| s.sample_v(&mut rng));
                let viol = match r {
                    Err(msg) => Some(("panic".to_string(), format!("{}: panic: {}", cell.key(), msg.lines().next().unwrap_or("")))),
                    Ok(v) => check_val(&cell, &v),
                };
                if let Some((sym, msg)) = viol {
                    ctx.violation(Violation { property: ctx.property.clone(), family: cell.fam.name(), float: ft_name(&cell), symptom: sym, trigger: "random".into(), what: format!("{msg} (call {i})"), case: case.clone() });
                    break;
                }
            }
            ctx.eval(calls);
            return true;
        }
        return false;
    }
    let sc: StreamCase = match serde_json::from_value(case["stream"].clone()) {
        Ok(c) => c,
        Err(_) => return false,
    };
    match build(&sc.cell) {
        Ok(s) => {
            let res = run_case(s.as_ref(), &sc);
            ctx.eval(1);
            if let Some((sym, msg)) = res.violation {
                report(ctx, &sc, &sym, &msg);
            }
            true
        }
        Err(e) => {
            // the constructor (now) rejects these parameters: there is no sample() call to judge (C04 owns constructors)
            eprintln!("replay: {} is not constructible ({}): nothing to sample", sc.cell.key(), e);
            ctx.eval(0);
            true
        }
    }
}
