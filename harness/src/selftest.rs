//! Calibration of the statistical rule itself (DESIGN §3.2): synthetic samplers whose law is known exactly
//! must give zero rejections; planted defects must be rejected at the quick sample size.
use crate::families::{Cell, Fam, Ft};
use crate::refdist::reflaw;
use crate::rng::{hseed, BaseRng};
use crate::stats::{check_law, LawJob};
use rand::RngExt;
use rayon::prelude::*;
use std::f64::consts::PI;

fn u01(r: &mut BaseRng) -> f64 {
    // (0,1) with 53 bits
    (r.random::<u64>() >> 11) as f64 * 2f64.powi(-53) + 2f64.powi(-54)
}
fn std_normal(r: &mut BaseRng) -> f64 {
    // Box–Muller: exact in law
    let (a, b) = (u01(r), u01(r));
    (-2.0 * a.ln()).sqrt() * (2.0 * PI * b).cos()
}

/// an exact (in law) f64 sampler for the cell, written here without rand_distr
pub fn synthetic(cell: &Cell, r: &mut BaseRng) -> f64 {
    let p = &cell.p;
    match cell.fam {
        Fam::StandardNormal => std_normal(r),
        Fam::Normal => p[0] + p[1] * std_normal(r),
        Fam::LogNormal => (p[0] + p[1] * std_normal(r)).exp(),
        Fam::Exp1 => -u01(r).ln(),
        Fam::Exp => -u01(r).ln() / p[0],
        Fam::Cauchy => p[0] + p[1] * (PI * (u01(r) - 0.5)).tan(),
        Fam::Pareto => p[0] * u01(r).powf(-1.0 / p[1]),
        Fam::Weibull => p[0] * (-u01(r).ln()).powf(1.0 / p[1]),
        Fam::Gumbel => p[0] - p[1] * (-u01(r).ln()).ln(),
        Fam::Frechet => p[0] + p[1] * (-u01(r).ln()).powf(-1.0 / p[2]),
        Fam::Triangular => {
            let (a, b, c) = (p[0], p[1], p[2]);
            let u = u01(r);
            let fc = (c - a) / (b - a);
            if u < fc { a + (u * (b - a) * (c - a)).sqrt() } else { b - ((1.0 - u) * (b - a) * (b - c)).sqrt() }
        }
        Fam::ChiSquared => (0..p[0] as usize).map(|_| { let z = std_normal(r); z * z }).sum(),
        Fam::Gamma => (0..p[0] as usize).map(|_| -u01(r).ln()).sum::<f64>() * p[1], // integer shape: Erlang
        Fam::Geometric => (u01(r).ln() / (-p[0]).ln_1p()).floor(),
        Fam::Binomial => (0..cell.ip[0]).filter(|_| u01(r) < p[0]).count() as f64,
        Fam::Poisson => {
            // count exponential arrivals in [0, lambda)
            let mut t = -u01(r).ln();
            let mut k = 0.0;
            while t < p[0] {
                k += 1.0;
                t += -u01(r).ln();
            }
            k
        }
        _ => f64::NAN,
    }
}

pub fn cells() -> Vec<Cell> {
    let f = Ft::F64;
    let mut v = vec![
        Cell::new(Fam::StandardNormal, f, &[]),
        Cell::new(Fam::Exp1, f, &[]),
    ];
    for &(m, s) in &[(0.0, 1.0), (3.0, 0.5), (-100.0, 7.0), (1000.0, 1e-3)] {
        v.push(Cell::new(Fam::Normal, f, &[m, s]));
    }
    for &(m, s) in &[(0.0, 1.0), (2.0, 0.3), (-3.0, 2.0)] {
        v.push(Cell::new(Fam::LogNormal, f, &[m, s]));
    }
    for &l in &[0.01, 1.0, 50.0] {
        v.push(Cell::new(Fam::Exp, f, &[l]));
    }
    for &(a, b) in &[(0.0, 1.0), (10.0, 0.1), (-5.0, 30.0)] {
        v.push(Cell::new(Fam::Cauchy, f, &[a, b]));
        v.push(Cell::new(Fam::Gumbel, f, &[a, b]));
    }
    for &(a, b) in &[(1.0, 1.0), (2.0, 0.5), (0.1, 7.0), (3.0, 3.0)] {
        v.push(Cell::new(Fam::Pareto, f, &[a, b]));
        v.push(Cell::new(Fam::Weibull, f, &[a, b]));
        v.push(Cell::new(Fam::Frechet, f, &[0.5, a, b]));
    }
    for &(a, b, c) in &[(0.0, 1.0, 0.5), (0.0, 1.0, 0.0), (-3.0, 7.0, 6.0), (1.0, 2.0, 2.0)] {
        v.push(Cell::new(Fam::Triangular, f, &[a, b, c]));
    }
    for &k in &[1.0, 2.0, 5.0, 12.0] {
        v.push(Cell::new(Fam::ChiSquared, f, &[k]));
        v.push(Cell::new(Fam::Gamma, f, &[k, 2.5]));
    }
    for &p in &[0.01, 0.3, 0.5, 0.9] {
        v.push(Cell::newi(Fam::Geometric, &[], &[p]));
    }
    for &(n, p) in &[(1u64, 0.5), (5, 0.1), (20, 0.3), (30, 0.9), (40, 0.5)] {
        v.push(Cell::newi(Fam::Binomial, &[n], &[p]));
    }
    for &l in &[0.5, 3.0, 11.0, 25.0] {
        v.push(Cell::new(Fam::Poisson, f, &[l]));
    }
    v
}

/// returns (cells run, false rejections, planted defects run, planted defects missed, messages)
pub fn run(repeats: u64, n: u64) -> (u64, u64, u64, u64, Vec<String>) {
    let cs = cells();
    let jobs: Vec<(Cell, u64)> = (0..repeats).flat_map(|k| cs.iter().cloned().map(move |c| (c, k))).collect();
    let res: Vec<(bool, String)> = jobs
        .par_iter()
        .map(|(cell, k)| {
            let law = reflaw(cell).unwrap();
            let c2 = cell.clone();
            let fill = move |rng: &mut BaseRng, out: &mut [f64]| {
                for o in out.iter_mut() {
                    *o = synthetic(&c2, rng);
                }
            };
            let out = check_law(&LawJob { cell, sampler: crate::stats::Src::Fn(&fill), law: &law, n, seed: hseed(&[*k, cell.hash64(), 0x5E1F]), min_n: 0 });
            (!out.confirmed.is_empty(), format!("{}: {:?}", cell.key(), out.confirmed.first()))
        })
        .collect();
    let false_rej = res.iter().filter(|r| r.0).count() as u64;
    let mut msgs: Vec<String> = res.iter().filter(|r| r.0).map(|r| format!("FALSE REJECTION {}", r.1)).collect();
    // planted defects on a subset
    let planted: Vec<(Cell, u8)> = cs.iter().filter(|c| matches!(c.fam, Fam::Normal | Fam::Exp | Fam::Weibull | Fam::Gumbel | Fam::Gamma | Fam::Poisson | Fam::Binomial)).flat_map(|c| [(c.clone(), 0u8), (c.clone(), 1u8), (c.clone(), 2u8)]).collect();
    let pres: Vec<(bool, String)> = planted
        .par_iter()
        .map(|(cell, kind)| {
            let law = reflaw(cell).unwrap();
            let c2 = cell.clone();
            let kind = *kind;
            let discrete = law.discrete;
            if kind >= 1 && discrete {
                return (true, String::new());
            }
            // defect 0: with probability 2e-2 a lower-half draw is replaced by the median-ish value of an independent draw
            //           is redrawn from the upper half (moves 1e-2 of mass: ~4x the quick-tier body resolution 2.2e-3)
            // defect 1: a 3 % scale error (max CDF shift ~7e-3)
            // defect 2: a rare constant fallback: with probability 2e-5 the median is returned (an atom far below
            //           the resolution of T1-T3; must be caught by the atom test T5)
            let med = crate::refdist::quantile(&law, 0.5).unwrap_or(0.0);
            let fill = move |rng: &mut BaseRng, out: &mut [f64]| {
                for o in out.iter_mut() {
                    let mut x = synthetic(&c2, rng);
                    if kind == 0 {
                        if u01(rng) < 2e-2 && x <= med {
                            // redraw until in the upper half
                            for _ in 0..64 {
                                let y = synthetic(&c2, rng);
                                if y > med {
                                    x = y;
                                    break;
                                }
                            }
                        }
                    } else if kind == 1 {
                        x = c2.p.first().copied().filter(|_| matches!(c2.fam, Fam::Normal | Fam::Gumbel)).map(|loc| loc + (x - loc) * 1.03).unwrap_or(x * 1.03);
                    } else if u01(rng) < 2e-5 {
                        x = med;
                    }
                    *o = x;
                }
            };
            let out = check_law(&LawJob { cell, sampler: crate::stats::Src::Fn(&fill), law: &law, n: 4_000_000, seed: hseed(&[kind as u64, cell.hash64(), 0xDEFE]), min_n: 0 });
            (!out.confirmed.is_empty(), format!("{} defect {}", cell.key(), kind))
        })
        .collect();
    let missed = pres.iter().filter(|r| !r.0).count() as u64;
    msgs.extend(pres.iter().filter(|r| !r.0).map(|r| format!("PLANTED DEFECT MISSED {}", r.1)));
    (res.len() as u64, false_rej, pres.len() as u64, missed, msgs)
}

/// Assumption behind the exact enumerations of C08 / C10: rand maps a forced word v to floor(v * range / 2^b)
/// (`random_range`: the word ceil(t 2^b / range); `Uniform`: the same + 1). Returns the mismatches found.
pub fn uniform_int_mapping() -> Vec<String> {
    use crate::rng::VRng;
    use rand::distr::{Distribution, Uniform};
    use rand::RngExt;
    let mut bad = vec![];
    for &range in &[1u64, 2, 3, 7, 10, 255, 1000, 65535, 65536] {
        for t in (0..range).step_by((range / 17).max(1) as usize).chain([range - 1]) {
            let t128 = t as u128;
            let v32 = ((t128 << 32) + range as u128 - 1) / range as u128;
            let v64 = ((t128 << 64) + range as u128 - 1) / range as u128;
            let mut r = VRng::from_env(1);
            r.force(0, (v32 as u64) << 32);
            r.begin_call();
            let a: u32 = r.random_range(0..range as u32);
            if a as u64 != t || r.call_words != 1 {
                bad.push(format!("random_range::<u32>(0..{range}) with the word for {t} returned {a} after {} words", r.call_words));
            }
            let mut r = VRng::from_env(1);
            r.force(0, v64 as u64);
            r.begin_call();
            let a: u64 = r.random_range(0..range);
            if a != t || r.call_words != 1 {
                bad.push(format!("random_range::<u64>(0..{range}) with the word for {t} returned {a} after {} words", r.call_words));
            }
            let mut r = VRng::from_env(1);
            r.force(0, ((v32 as u64) + 1) << 32);
            r.begin_call();
            let a: u32 = Uniform::new(0u32, range as u32).unwrap().sample(&mut r);
            if a as u64 != t || r.call_words != 1 {
                bad.push(format!("Uniform::<u32>::new(0, {range}) with the word for {t} (+1) returned {a} after {} words", r.call_words));
            }
        }
    }
    bad
}
