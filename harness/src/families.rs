//! Family registry (DESIGN §3.4): every distribution behind one interface.
use crate::rng::{BaseRng, VRng};
use rand_distr::multi::Dirichlet;
use rand_distr::weighted::{WeightedAliasIndex, WeightedTreeIndex};
use rand_distr::*;
use serde::{Deserialize, Serialize};
use std::any::Any;
use std::fmt::Debug;
use std::marker::PhantomData;

#[derive(Clone, Copy, Debug, PartialEq, Eq, Hash, PartialOrd, Ord, Serialize, Deserialize)]
pub enum Fam {
    StandardNormal,
    Normal,
    LogNormal,
    Exp1,
    Exp,
    Gamma,
    ChiSquared,
    StudentT,
    FisherF,
    Beta,
    Pert,
    Triangular,
    Cauchy,
    Pareto,
    Weibull,
    Gumbel,
    Frechet,
    SkewNormal,
    InverseGaussian,
    Nig,
    /// alternative constructors of the same types (law clause of C01 for from_mean_cv / with_mean)
    NormalMeanCv,
    LogNormalMeanCv,
    PertMean,
    Binomial,
    Poisson,
    Geometric,
    StandardGeometric,
    Hypergeometric,
    Zipf,
    Zeta,
    // multi / geometry / weighted (not part of C01/C02 laws, used by C03/C05/C14/C15)
    UnitCircle,
    UnitDisc,
    UnitSphere,
    UnitBall,
    Dirichlet,
    AliasU8,
    AliasU16,
    AliasU32,
    AliasU64,
    AliasU128,
    AliasUsize,
    AliasI8,
    AliasI16,
    AliasI32,
    AliasI64,
    AliasI128,
    AliasF,
    TreeU8,
    TreeU16,
    TreeU32,
    TreeU64,
    TreeU128,
    TreeUsize,
    TreeI8,
    TreeI16,
    TreeI32,
    TreeI64,
    TreeI128,
    TreeF,
}

pub const CONTINUOUS: [Fam; 20] = [
    Fam::StandardNormal,
    Fam::Normal,
    Fam::LogNormal,
    Fam::Exp1,
    Fam::Exp,
    Fam::Gamma,
    Fam::ChiSquared,
    Fam::StudentT,
    Fam::FisherF,
    Fam::Beta,
    Fam::Pert,
    Fam::Triangular,
    Fam::Cauchy,
    Fam::Pareto,
    Fam::Weibull,
    Fam::Gumbel,
    Fam::Frechet,
    Fam::SkewNormal,
    Fam::InverseGaussian,
    Fam::Nig,
];

/// constructor variants whose documented law is derived from the arguments (C01 only)
pub const CTOR_VARIANTS: [Fam; 3] = [Fam::NormalMeanCv, Fam::LogNormalMeanCv, Fam::PertMean];

pub const DISCRETE: [Fam; 7] = [
    Fam::Binomial,
    Fam::Poisson,
    Fam::Geometric,
    Fam::StandardGeometric,
    Fam::Hypergeometric,
    Fam::Zipf,
    Fam::Zeta,
];

pub const ALIAS_INT: [Fam; 11] = [
    Fam::AliasU8,
    Fam::AliasU16,
    Fam::AliasU32,
    Fam::AliasU64,
    Fam::AliasU128,
    Fam::AliasUsize,
    Fam::AliasI8,
    Fam::AliasI16,
    Fam::AliasI32,
    Fam::AliasI64,
    Fam::AliasI128,
];
pub const TREE_INT: [Fam; 11] = [
    Fam::TreeU8,
    Fam::TreeU16,
    Fam::TreeU32,
    Fam::TreeU64,
    Fam::TreeU128,
    Fam::TreeUsize,
    Fam::TreeI8,
    Fam::TreeI16,
    Fam::TreeI32,
    Fam::TreeI64,
    Fam::TreeI128,
];

impl Fam {
    pub fn is_continuous(self) -> bool {
        CONTINUOUS.contains(&self)
    }
    pub fn is_discrete(self) -> bool {
        DISCRETE.contains(&self)
    }
    /// integer-output families that exist only once (no float type parameter)
    pub fn int_only(self) -> bool {
        matches!(
            self,
            Fam::Binomial | Fam::Geometric | Fam::StandardGeometric | Fam::Hypergeometric
        ) || ALIAS_INT.contains(&self)
            || TREE_INT.contains(&self)
    }
    pub fn name(self) -> String {
        format!("{:?}", self)
    }
}

#[derive(Clone, Copy, Debug, PartialEq, Eq, Hash, PartialOrd, Ord, Serialize, Deserialize)]
pub enum Ft {
    F32,
    F64,
}
impl Ft {
    pub fn eps(self) -> f64 {
        match self {
            Ft::F32 => f32::EPSILON as f64,
            Ft::F64 => f64::EPSILON,
        }
    }
    pub fn min_pos(self) -> f64 {
        match self {
            Ft::F32 => f32::MIN_POSITIVE as f64,
            Ft::F64 => f64::MIN_POSITIVE,
        }
    }
    pub fn max(self) -> f64 {
        match self {
            Ft::F32 => f32::MAX as f64,
            Ft::F64 => f64::MAX,
        }
    }
    /// round a f64 to the parameter type and widen back
    pub fn rnd(self, x: f64) -> f64 {
        match self {
            Ft::F32 => x as f32 as f64,
            Ft::F64 => x,
        }
    }
    pub fn next_up(self, x: f64) -> f64 {
        match self {
            Ft::F32 => (x as f32).next_up() as f64,
            Ft::F64 => x.next_up(),
        }
    }
    pub fn next_down(self, x: f64) -> f64 {
        match self {
            Ft::F32 => (x as f32).next_down() as f64,
            Ft::F64 => x.next_down(),
        }
    }
}

/// One point of the (family, float type, parameter) space.
#[derive(Clone, Debug, PartialEq, Serialize, Deserialize)]
pub struct Cell {
    pub fam: Fam,
    pub ft: Ft,
    #[serde(default, with = "fvec")]
    pub p: Vec<f64>,
    #[serde(default)]
    pub ip: Vec<u64>,
}

/// parameter vectors in replay files: finite values as JSON numbers, non-finite ones as the strings
/// "inf" / "-inf" / "nan" (JSON has no literal for them and serde_json would write null)
mod fvec {
    use serde::de::Error;
    use serde::{Deserialize, Deserializer, Serialize, Serializer};
    #[derive(Serialize, Deserialize)]
    #[serde(untagged)]
    enum Item {
        Num(f64),
        Txt(String),
        Null(()),
    }
    pub fn serialize<S: Serializer>(v: &[f64], s: S) -> Result<S::Ok, S::Error> {
        let items: Vec<Item> = v
            .iter()
            .map(|&x| if x.is_finite() { Item::Num(x) } else if x.is_nan() { Item::Txt("nan".into()) } else if x > 0.0 { Item::Txt("inf".into()) } else { Item::Txt("-inf".into()) })
            .collect();
        items.serialize(s)
    }
    pub fn deserialize<'de, D: Deserializer<'de>>(d: D) -> Result<Vec<f64>, D::Error> {
        let items = Vec::<Item>::deserialize(d)?;
        items
            .into_iter()
            .map(|i| match i {
                Item::Num(x) => Ok(x),
                Item::Txt(t) => match t.as_str() {
                    "inf" => Ok(f64::INFINITY),
                    "-inf" => Ok(f64::NEG_INFINITY),
                    "nan" => Ok(f64::NAN),
                    o => Err(D::Error::custom(format!("bad float '{o}'"))),
                },
                Item::Null(()) => Err(D::Error::custom("null parameter (non-finite value written by an older version)")),
            })
            .collect()
    }
}

impl Cell {
    pub fn new(fam: Fam, ft: Ft, p: &[f64]) -> Cell {
        let ft = if fam.int_only() { Ft::F64 } else { ft };
        Cell {
            fam,
            ft,
            p: p.iter().map(|&x| ft.rnd(x)).collect(),
            ip: vec![],
        }
    }
    pub fn newi(fam: Fam, ip: &[u64], p: &[f64]) -> Cell {
        Cell {
            fam,
            ft: Ft::F64,
            p: p.to_vec(),
            ip: ip.to_vec(),
        }
    }
    pub fn key(&self) -> String {
        let ps: Vec<String> = self.p.iter().map(|x| format!("{:e}", x)).collect();
        let is: Vec<String> = self.ip.iter().map(|x| x.to_string()).collect();
        format!(
            "{:?}<{}>({}{}{})",
            self.fam,
            if self.fam.int_only() {
                "-"
            } else if self.ft == Ft::F32 {
                "f32"
            } else {
                "f64"
            },
            is.join(","),
            if !is.is_empty() && !ps.is_empty() { ";" } else { "" },
            ps.join(",")
        )
    }
    pub fn hash64(&self) -> u64 {
        crate::rng::hstr(&self.key())
    }
}

/// A sampled value with its exact bit pattern.
#[derive(Clone, Debug, PartialEq)]
pub enum Val {
    F32(f32),
    F64(f64),
    U64(u64),
    VF32(Vec<f32>),
    VF64(Vec<f64>),
}

impl Val {
    /// widening to f64 (exact for f32/f64; u64 above 2^53 rounds — use `as_u64` for exact integer work)
    pub fn as_f64(&self) -> f64 {
        match self {
            Val::F32(x) => *x as f64,
            Val::F64(x) => *x,
            Val::U64(x) => *x as f64,
            _ => f64::NAN,
        }
    }
    pub fn as_u64(&self) -> Option<u64> {
        match self {
            Val::U64(x) => Some(*x),
            _ => None,
        }
    }
    pub fn vec(&self) -> Vec<f64> {
        match self {
            Val::VF32(v) => v.iter().map(|x| *x as f64).collect(),
            Val::VF64(v) => v.clone(),
            o => vec![o.as_f64()],
        }
    }
    pub fn bits(&self) -> Vec<u64> {
        match self {
            Val::F32(x) => vec![x.to_bits() as u64],
            Val::F64(x) => vec![x.to_bits()],
            Val::U64(x) => vec![*x],
            Val::VF32(v) => v.iter().map(|x| x.to_bits() as u64).collect(),
            Val::VF64(v) => v.iter().map(|x| x.to_bits()).collect(),
        }
    }
    pub fn show(&self) -> String {
        match self {
            Val::F32(x) => format!("{:e}f32", x),
            Val::F64(x) => format!("{:e}", x),
            Val::U64(x) => format!("{}u64", x),
            Val::VF32(v) => format!("{:?}", v),
            Val::VF64(v) => format!("{:?}", v),
        }
    }
}

pub trait OutVal: Sized {
    fn val(self) -> Val;
    fn f(self) -> f64;
}
impl OutVal for f32 {
    #[inline(always)]
    fn val(self) -> Val {
        Val::F32(self)
    }
    #[inline(always)]
    fn f(self) -> f64 {
        self as f64
    }
}
impl OutVal for f64 {
    #[inline(always)]
    fn val(self) -> Val {
        Val::F64(self)
    }
    #[inline(always)]
    fn f(self) -> f64 {
        self
    }
}
impl OutVal for u64 {
    #[inline(always)]
    fn val(self) -> Val {
        Val::U64(self)
    }
    #[inline(always)]
    fn f(self) -> f64 {
        self as f64
    }
}
impl OutVal for usize {
    #[inline(always)]
    fn val(self) -> Val {
        Val::U64(self as u64)
    }
    #[inline(always)]
    fn f(self) -> f64 {
        self as f64
    }
}
macro_rules! outval_arr {
    ($t:ty, $n:expr, $v:ident) => {
        impl OutVal for [$t; $n] {
            fn val(self) -> Val {
                Val::$v(self.to_vec())
            }
            fn f(self) -> f64 {
                f64::NAN
            }
        }
    };
}
outval_arr!(f32, 2, VF32);
outval_arr!(f32, 3, VF32);
outval_arr!(f64, 2, VF64);
outval_arr!(f64, 3, VF64);
impl OutVal for Vec<f32> {
    fn val(self) -> Val {
        Val::VF32(self)
    }
    fn f(self) -> f64 {
        f64::NAN
    }
}
impl OutVal for Vec<f64> {
    fn val(self) -> Val {
        Val::VF64(self)
    }
    fn f(self) -> f64 {
        f64::NAN
    }
}

// ---------------------------------------------------------------------------------------------
// serde capability detection by autoref specialisation (DESIGN C15)

pub struct SerdeTag<T>(pub PhantomData<T>);
pub struct RoundTrip<T> {
    pub via_value: Result<T, String>,
    pub via_text: Result<T, String>,
    pub text: String,
}
pub trait SerdeYes<T> {
    fn rt(&self, v: &T) -> Option<RoundTrip<T>>;
    fn from_text(&self, s: &str) -> Option<Result<T, String>>;
}
impl<T: Serialize + serde::de::DeserializeOwned> SerdeYes<T> for &SerdeTag<T> {
    fn rt(&self, v: &T) -> Option<RoundTrip<T>> {
        let via_value = serde_json::to_value(v)
            .map_err(|e| format!("to_value: {e}"))
            .and_then(|j| serde_json::from_value::<T>(j).map_err(|e| format!("from_value: {e}")));
        let text = serde_json::to_string(v).unwrap_or_else(|e| format!("<to_string failed: {e}>"));
        let via_text = serde_json::from_str::<T>(&text).map_err(|e| format!("from_str: {e}"));
        Some(RoundTrip {
            via_value,
            via_text,
            text,
        })
    }
    fn from_text(&self, s: &str) -> Option<Result<T, String>> {
        Some(serde_json::from_str::<T>(s).map_err(|e| e.to_string()))
    }
}
pub trait SerdeNo<T> {
    fn rt(&self, _v: &T) -> Option<RoundTrip<T>> {
        None
    }
    fn from_text(&self, _s: &str) -> Option<Result<T, String>> {
        None
    }
}
impl<T> SerdeNo<T> for SerdeTag<T> {}

pub struct EqTag<T>(pub PhantomData<T>);
pub trait EqYes<T> {
    fn eqv(&self, a: &T, b: &T) -> Option<bool>;
}
impl<T: PartialEq> EqYes<T> for &EqTag<T> {
    fn eqv(&self, a: &T, b: &T) -> Option<bool> {
        Some(a == b)
    }
}
pub trait EqNo<T> {
    fn eqv(&self, _a: &T, _b: &T) -> Option<bool> {
        None
    }
}
impl<T> EqNo<T> for EqTag<T> {}

/// Per-concrete-type capabilities, implemented by macro below.
pub trait Subject: Clone + Debug + Send + 'static {
    fn type_label() -> &'static str;
    fn eq_opt(&self, other: &Self) -> Option<bool>;
    fn serde_rt(&self) -> Option<RoundTrip<Self>>;
    fn serde_from_text(s: &str) -> Option<Result<Self, String>>;
}

macro_rules! impl_subject {
    ($($t:ty),* $(,)?) => {$(
        impl Subject for $t {
            fn type_label() -> &'static str { stringify!($t) }
            fn eq_opt(&self, other: &Self) -> Option<bool> {
                (&&EqTag::<$t>(PhantomData)).eqv(self, other)
            }
            fn serde_rt(&self) -> Option<RoundTrip<Self>> {
                (&&SerdeTag::<$t>(PhantomData)).rt(self)
            }
            fn serde_from_text(s: &str) -> Option<Result<Self, String>> {
                (&&SerdeTag::<$t>(PhantomData)).from_text(s)
            }
        }
    )*};
}

impl_subject!(
    StandardNormal, Exp1, StandardGeometric, UnitCircle, UnitDisc, UnitSphere, UnitBall,
    Normal<f32>, Normal<f64>, LogNormal<f32>, LogNormal<f64>, Exp<f32>, Exp<f64>,
    Gamma<f32>, Gamma<f64>, ChiSquared<f32>, ChiSquared<f64>, StudentT<f32>, StudentT<f64>,
    FisherF<f32>, FisherF<f64>, Beta<f32>, Beta<f64>, Pert<f32>, Pert<f64>,
    Triangular<f32>, Triangular<f64>, Cauchy<f32>, Cauchy<f64>, Pareto<f32>, Pareto<f64>,
    Weibull<f32>, Weibull<f64>, Gumbel<f32>, Gumbel<f64>, Frechet<f32>, Frechet<f64>,
    SkewNormal<f32>, SkewNormal<f64>, InverseGaussian<f32>, InverseGaussian<f64>,
    NormalInverseGaussian<f32>, NormalInverseGaussian<f64>,
    Binomial, Poisson<f32>, Poisson<f64>, Geometric, Hypergeometric,
    Zipf<f32>, Zipf<f64>, Zeta<f32>, Zeta<f64>,
    Dirichlet<f32>, Dirichlet<f64>,
    WeightedAliasIndex<u8>, WeightedAliasIndex<u16>, WeightedAliasIndex<u32>, WeightedAliasIndex<u64>,
    WeightedAliasIndex<u128>, WeightedAliasIndex<usize>, WeightedAliasIndex<i8>, WeightedAliasIndex<i16>,
    WeightedAliasIndex<i32>, WeightedAliasIndex<i64>, WeightedAliasIndex<i128>,
    WeightedAliasIndex<f32>, WeightedAliasIndex<f64>,
    WeightedTreeIndex<u8>, WeightedTreeIndex<u16>, WeightedTreeIndex<u32>, WeightedTreeIndex<u64>,
    WeightedTreeIndex<u128>, WeightedTreeIndex<usize>, WeightedTreeIndex<i8>, WeightedTreeIndex<i16>,
    WeightedTreeIndex<i32>, WeightedTreeIndex<i64>, WeightedTreeIndex<i128>,
    WeightedTreeIndex<f32>, WeightedTreeIndex<f64>,
);

// ---------------------------------------------------------------------------------------------

/// (only `Send` is required of the library's types: a value is never shared between threads, it is cloned)
pub trait Sampler: Send {
    fn sample_v(&self, rng: &mut VRng) -> Val;
    /// bulk sampling on the fast path (scalar outputs only; u64 is rounded to f64)
    fn fill(&self, rng: &mut BaseRng, out: &mut [f64]);
    fn sample_b(&self, rng: &mut BaseRng) -> Val;
    /// `sample_iter(rng).take(k)` through the library's iterator adaptor
    fn iter_take(&self, rng: &mut VRng, k: usize) -> Vec<Val>;
    fn debug(&self) -> String;
    fn type_label(&self) -> &'static str;
    fn clone_box(&self) -> Box<dyn Sampler>;
    fn as_any(&self) -> &dyn Any;
    /// PartialEq if the type has it
    fn eq_dyn(&self, other: &dyn Sampler) -> Option<bool>;
    /// serde round trips (value route, text route, text) if the type has serde impls
    fn serde_rt(&self) -> Option<(Result<Box<dyn Sampler>, String>, Result<Box<dyn Sampler>, String>, String)>;
    fn serde_from_text(&self, s: &str) -> Option<Result<Box<dyn Sampler>, String>>;
    /// `Clone::clone_from(self, other)`; false if the concrete types differ
    fn clone_from_dyn(&mut self, other: &dyn Sampler) -> bool;
    /// multi-output distributions: `sample_to_slice` into a buffer pre-filled with junk (None for other types)
    fn sample_into_dirty(&self, rng: &mut VRng, junk: u64) -> Option<Val>;
    /// observable state beyond Debug (e.g. WeightedAliasIndex::weights()); None if there is none
    fn extra_repr(&self) -> Option<String>;
}

pub struct Wrap<D, T> {
    pub d: D,
    _t: PhantomData<fn() -> T>,
    dirty: Option<fn(&D, &mut VRng, u64) -> Val>,
    repr: Option<fn(&D) -> String>,
    /// law checks only: `fill` reports n - x instead of x (u64 outputs near 2^62 do not survive the
    /// conversion to f64; the complement is small and exact). See `binomial_uses_complement`.
    complement: Option<u64>,
}

impl<D, T> Sampler for Wrap<D, T>
where
    D: Distribution<T> + Subject,
    T: OutVal + 'static,
{
    #[inline]
    fn sample_v(&self, rng: &mut VRng) -> Val {
        self.d.sample(rng).val()
    }
    fn fill(&self, rng: &mut BaseRng, out: &mut [f64]) {
        if let Some(n) = self.complement {
            for o in out.iter_mut() {
                *o = n.wrapping_sub(self.d.sample(rng).val().as_u64().unwrap_or(0)) as f64;
            }
            return;
        }
        for o in out.iter_mut() {
            *o = self.d.sample(rng).f();
        }
    }
    fn sample_b(&self, rng: &mut BaseRng) -> Val {
        self.d.sample(rng).val()
    }
    fn iter_take(&self, rng: &mut VRng, k: usize) -> Vec<Val> {
        (&self.d).sample_iter(rng).take(k).map(|x| x.val()).collect()
    }
    fn debug(&self) -> String {
        format!("{:?}", self.d)
    }
    fn type_label(&self) -> &'static str {
        D::type_label()
    }
    fn clone_box(&self) -> Box<dyn Sampler> {
        Box::new(Wrap::<D, T> {
            d: self.d.clone(),
            _t: PhantomData,
            dirty: self.dirty,
            repr: self.repr,
            complement: self.complement,
        })
    }
    fn as_any(&self) -> &dyn Any {
        self
    }
    fn eq_dyn(&self, other: &dyn Sampler) -> Option<bool> {
        match other.as_any().downcast_ref::<Wrap<D, T>>() {
            Some(o) => self.d.eq_opt(&o.d),
            None => Some(false),
        }
    }
    fn serde_rt(&self) -> Option<(Result<Box<dyn Sampler>, String>, Result<Box<dyn Sampler>, String>, String)> {
        let rt = self.d.serde_rt()?;
        let (dirty, repr, complement) = (self.dirty, self.repr, self.complement);
        let bx = |r: Result<D, String>| -> Result<Box<dyn Sampler>, String> {
            r.map(|d| Box::new(Wrap::<D, T> { d, _t: PhantomData, dirty, repr, complement }) as Box<dyn Sampler>)
        };
        Some((bx(rt.via_value), bx(rt.via_text), rt.text))
    }
    fn serde_from_text(&self, s: &str) -> Option<Result<Box<dyn Sampler>, String>> {
        let (dirty, repr, complement) = (self.dirty, self.repr, self.complement);
        D::serde_from_text(s).map(|r| r.map(|d| Box::new(Wrap::<D, T> { d, _t: PhantomData, dirty, repr, complement }) as Box<dyn Sampler>))
    }
    fn clone_from_dyn(&mut self, other: &dyn Sampler) -> bool {
        match other.as_any().downcast_ref::<Wrap<D, T>>() {
            Some(o) => {
                self.d.clone_from(&o.d);
                true
            }
            None => false,
        }
    }
    fn sample_into_dirty(&self, rng: &mut VRng, junk: u64) -> Option<Val> {
        self.dirty.map(|f| f(&self.d, rng, junk))
    }
    fn extra_repr(&self) -> Option<String> {
        self.repr.map(|f| f(&self.d))
    }
}

fn bx<D, T>(d: D) -> Box<dyn Sampler>
where
    D: Distribution<T> + Subject,
    T: OutVal + 'static,
{
    Box::new(Wrap::<D, T> { d, _t: PhantomData, dirty: None, repr: None, complement: None })
}

fn bx_alias<W: rand_distr::weighted::AliasableWeight + Debug + Send + 'static>(d: WeightedAliasIndex<W>) -> Box<dyn Sampler>
where
    WeightedAliasIndex<W>: Distribution<usize> + Subject,
{
    Box::new(Wrap::<WeightedAliasIndex<W>, usize> {
        d,
        _t: PhantomData,
        dirty: None,
        repr: Some(|d| match std::panic::catch_unwind(std::panic::AssertUnwindSafe(|| d.weights())) {
            Ok(w) => format!("weights() = {:?}", w),
            Err(_) => "weights() panicked".to_string(),
        }),
        complement: None,
    })
}

fn dirty_dirichlet<F: num_traits::Float + Default>(d: &Dirichlet<F>, rng: &mut VRng, junk: u64) -> Vec<F>
where
    Dirichlet<F>: rand_distr::multi::MultiDistribution<F>,
    StandardNormal: Distribution<F>,
    Exp1: Distribution<F>,
    Open01: Distribution<F>,
{
    use rand_distr::multi::MultiDistribution;
    let n = d.sample_len();
    // junk that looks like a previous sample: values in (0,1)
    let mut buf: Vec<F> = (0..n).map(|i| F::from(((crate::rng::mix(junk ^ i as u64) >> 11) as f64) * 2f64.powi(-53)).unwrap()).collect();
    d.sample_to_slice(rng, &mut buf);
    buf
}

fn es<E: Debug>(e: E) -> String {
    format!("{:?}", e)
}

macro_rules! both {
    ($cell:expr, $ty:ident, |$F:ident| $ctor:expr) => {
        match $cell.ft {
            Ft::F32 => {
                type $F = f32;
                $ctor.map(|d| bx::<$ty<f32>, f32>(d)).map_err(es)
            }
            Ft::F64 => {
                type $F = f64;
                $ctor.map(|d| bx::<$ty<f64>, f64>(d)).map_err(es)
            }
        }
    };
}

macro_rules! alias_int {
    ($cell:expr, $t:ty) => {
        WeightedAliasIndex::<$t>::new($cell.ip.iter().map(|&w| w as $t).collect())
            .map(|d| bx_alias::<$t>(d))
            .map_err(es)
    };
}
macro_rules! tree_int {
    ($cell:expr, $t:ty) => {
        WeightedTreeIndex::<$t>::new($cell.ip.iter().map(|&w| w as $t).collect::<Vec<$t>>())
            .map(|d| bx::<_, usize>(d))
            .map_err(es)
    };
}

/// Build the distribution of a cell. `Err` carries the Debug text of the constructor error.
/// Binomial(n, p) with n > 2^53 and p > 1/2: the outputs lie near n and are not representable as f64, so the
/// law checks look at n - X, which is Binomial(n, 1 - p) (1 - p is exact for p >= 1/2) — `Sampler::fill`
/// reports the complement and `refdist::reflaw` returns the complement's law. `sample_v` is unaffected.
pub fn binomial_uses_complement(cell: &Cell) -> bool {
    cell.fam == Fam::Binomial && cell.ip.first().map(|&n| n > (1u64 << 53)).unwrap_or(false) && cell.p.first().map(|&p| p > 0.5 && p <= 1.0).unwrap_or(false)
}

pub fn build(cell: &Cell) -> Result<Box<dyn Sampler>, String> {
    let p = &cell.p;
    let g = |i: usize| -> f64 { p.get(i).copied().unwrap_or(f64::NAN) };
    match cell.fam {
        Fam::StandardNormal => Ok(match cell.ft {
            Ft::F32 => bx::<_, f32>(StandardNormal),
            Ft::F64 => bx::<_, f64>(StandardNormal),
        }),
        Fam::Exp1 => Ok(match cell.ft {
            Ft::F32 => bx::<_, f32>(Exp1),
            Ft::F64 => bx::<_, f64>(Exp1),
        }),
        Fam::Normal => both!(cell, Normal, |F| Normal::<F>::new(g(0) as F, g(1) as F)),
        Fam::LogNormal => both!(cell, LogNormal, |F| LogNormal::<F>::new(g(0) as F, g(1) as F)),
        Fam::Exp => both!(cell, Exp, |F| Exp::<F>::new(g(0) as F)),
        Fam::Gamma => both!(cell, Gamma, |F| Gamma::<F>::new(g(0) as F, g(1) as F)),
        Fam::ChiSquared => both!(cell, ChiSquared, |F| ChiSquared::<F>::new(g(0) as F)),
        Fam::StudentT => both!(cell, StudentT, |F| StudentT::<F>::new(g(0) as F)),
        Fam::FisherF => both!(cell, FisherF, |F| FisherF::<F>::new(g(0) as F, g(1) as F)),
        Fam::Beta => both!(cell, Beta, |F| Beta::<F>::new(g(0) as F, g(1) as F)),
        Fam::Pert => both!(cell, Pert, |F| Pert::<F>::new(g(0) as F, g(1) as F)
            .with_shape(g(3) as F)
            .with_mode(g(2) as F)),
        Fam::Triangular => both!(cell, Triangular, |F| Triangular::<F>::new(g(0) as F, g(1) as F, g(2) as F)),
        Fam::Cauchy => both!(cell, Cauchy, |F| Cauchy::<F>::new(g(0) as F, g(1) as F)),
        Fam::Pareto => both!(cell, Pareto, |F| Pareto::<F>::new(g(0) as F, g(1) as F)),
        Fam::Weibull => both!(cell, Weibull, |F| Weibull::<F>::new(g(0) as F, g(1) as F)),
        Fam::Gumbel => both!(cell, Gumbel, |F| Gumbel::<F>::new(g(0) as F, g(1) as F)),
        Fam::Frechet => both!(cell, Frechet, |F| Frechet::<F>::new(g(0) as F, g(1) as F, g(2) as F)),
        Fam::SkewNormal => both!(cell, SkewNormal, |F| SkewNormal::<F>::new(g(0) as F, g(1) as F, g(2) as F)),
        Fam::InverseGaussian => both!(cell, InverseGaussian, |F| InverseGaussian::<F>::new(g(0) as F, g(1) as F)),
        Fam::Nig => both!(cell, NormalInverseGaussian, |F| NormalInverseGaussian::<F>::new(g(0) as F, g(1) as F)),
        Fam::NormalMeanCv => both!(cell, Normal, |F| Normal::<F>::from_mean_cv(g(0) as F, g(1) as F)),
        Fam::LogNormalMeanCv => both!(cell, LogNormal, |F| LogNormal::<F>::from_mean_cv(g(0) as F, g(1) as F)),
        // p = [min, max, mean, shape]
        Fam::PertMean => both!(cell, Pert, |F| Pert::<F>::new(g(0) as F, g(1) as F)
            .with_shape(g(3) as F)
            .with_mean(g(2) as F)),
        Fam::Binomial => Binomial::new(cell.ip[0], g(0))
            .map(|d| -> Box<dyn Sampler> {
                let complement = if binomial_uses_complement(cell) { Some(cell.ip[0]) } else { None };
                Box::new(Wrap::<_, u64> { d, _t: PhantomData, dirty: None, repr: None, complement })
            })
            .map_err(es),
        Fam::Poisson => both!(cell, Poisson, |F| Poisson::<F>::new(g(0) as F)),
        Fam::Geometric => Geometric::new(g(0)).map(|d| bx::<_, u64>(d)).map_err(es),
        Fam::StandardGeometric => Ok(bx::<_, u64>(StandardGeometric)),
        Fam::Hypergeometric => Hypergeometric::new(cell.ip[0], cell.ip[1], cell.ip[2])
            .map(|d| bx::<_, u64>(d))
            .map_err(es),
        Fam::Zipf => both!(cell, Zipf, |F| Zipf::<F>::new(g(0) as F, g(1) as F)),
        Fam::Zeta => both!(cell, Zeta, |F| Zeta::<F>::new(g(0) as F)),
        Fam::UnitCircle => Ok(match cell.ft {
            Ft::F32 => bx::<_, [f32; 2]>(UnitCircle),
            Ft::F64 => bx::<_, [f64; 2]>(UnitCircle),
        }),
        Fam::UnitDisc => Ok(match cell.ft {
            Ft::F32 => bx::<_, [f32; 2]>(UnitDisc),
            Ft::F64 => bx::<_, [f64; 2]>(UnitDisc),
        }),
        Fam::UnitSphere => Ok(match cell.ft {
            Ft::F32 => bx::<_, [f32; 3]>(UnitSphere),
            Ft::F64 => bx::<_, [f64; 3]>(UnitSphere),
        }),
        Fam::UnitBall => Ok(match cell.ft {
            Ft::F32 => bx::<_, [f32; 3]>(UnitBall),
            Ft::F64 => bx::<_, [f64; 3]>(UnitBall),
        }),
        Fam::Dirichlet => match cell.ft {
            Ft::F32 => {
                let a: Vec<f32> = p.iter().map(|&x| x as f32).collect();
                Dirichlet::<f32>::new(&a)
                    .map(|d| Box::new(Wrap::<Dirichlet<f32>, Vec<f32>> { d, _t: PhantomData, dirty: Some(|d, r, j| Val::VF32(dirty_dirichlet::<f32>(d, r, j))), repr: None, complement: None }) as Box<dyn Sampler>)
                    .map_err(es)
            }
            Ft::F64 => Dirichlet::<f64>::new(p)
                .map(|d| Box::new(Wrap::<Dirichlet<f64>, Vec<f64>> { d, _t: PhantomData, dirty: Some(|d, r, j| Val::VF64(dirty_dirichlet::<f64>(d, r, j))), repr: None, complement: None }) as Box<dyn Sampler>)
                .map_err(es),
        },
        Fam::AliasU8 => alias_int!(cell, u8),
        Fam::AliasU16 => alias_int!(cell, u16),
        Fam::AliasU32 => alias_int!(cell, u32),
        Fam::AliasU64 => alias_int!(cell, u64),
        Fam::AliasU128 => alias_int!(cell, u128),
        Fam::AliasUsize => alias_int!(cell, usize),
        Fam::AliasI8 => alias_int!(cell, i8),
        Fam::AliasI16 => alias_int!(cell, i16),
        Fam::AliasI32 => alias_int!(cell, i32),
        Fam::AliasI64 => alias_int!(cell, i64),
        Fam::AliasI128 => alias_int!(cell, i128),
        Fam::AliasF => match cell.ft {
            Ft::F32 => WeightedAliasIndex::<f32>::new(p.iter().map(|&x| x as f32).collect())
                .map(|d| bx_alias::<f32>(d))
                .map_err(es),
            Ft::F64 => WeightedAliasIndex::<f64>::new(p.clone()).map(|d| bx_alias::<f64>(d)).map_err(es),
        },
        Fam::TreeU8 => tree_int!(cell, u8),
        Fam::TreeU16 => tree_int!(cell, u16),
        Fam::TreeU32 => tree_int!(cell, u32),
        Fam::TreeU64 => tree_int!(cell, u64),
        Fam::TreeU128 => tree_int!(cell, u128),
        Fam::TreeUsize => tree_int!(cell, usize),
        Fam::TreeI8 => tree_int!(cell, i8),
        Fam::TreeI16 => tree_int!(cell, i16),
        Fam::TreeI32 => tree_int!(cell, i32),
        Fam::TreeI64 => tree_int!(cell, i64),
        Fam::TreeI128 => tree_int!(cell, i128),
        Fam::TreeF => match cell.ft {
            Ft::F32 => WeightedTreeIndex::<f32>::new(p.iter().map(|&x| x as f32).collect::<Vec<f32>>())
                .map(|d| bx::<_, usize>(d))
                .map_err(es),
            Ft::F64 => WeightedTreeIndex::<f64>::new(p.clone()).map(|d| bx::<_, usize>(d)).map_err(es),
        },
    }
}

/// Hypergeometric construction cost guard (DESIGN §4): number of factorial-loop steps in the HIN branch.
pub fn hyper_cost(nn: u64, kk: u64, ns: u64) -> u64 {
    if kk > nn || ns > nn {
        return 0;
    }
    let n = nn;
    let (n1, n2) = {
        let without = n - kk;
        if kk > without {
            (without, kk)
        } else {
            (kk, without)
        }
    };
    let k = if ns <= n / 2 { ns } else { n - ns };
    let m = ((k.wrapping_add(1)) as f64 * (n1.wrapping_add(1)) as f64 / (n.wrapping_add(2)) as f64).floor();
    if m - f64::max(0.0, k as f64 - n2 as f64) < 10.0 {
        let (num, den) = if k < n2 {
            ((n2, n - k), (n, n2 - k))
        } else {
            ((n1, k), (n, k - n2))
        };
        let min_all = num.0.min(num.1).min(den.0.min(den.1));
        let max_all = num.0.max(num.1).max(den.0.max(den.1));
        if min_all == u64::MAX {
            // `(min_all + 1)..=max_all` overflows: panics with overflow checks on, walks 2^64 steps without
            return if cfg!(debug_assertions) { 0 } else { u64::MAX };
        }
        max_all - min_all
    } else {
        0
    }
}

/// true if the Hypergeometric cell uses the HIN (inverse transform) branch
pub fn hyper_is_hin(nn: u64, kk: u64, ns: u64) -> bool {
    let n = nn;
    let (n1, n2) = {
        let without = n - kk;
        if kk > without {
            (without, kk)
        } else {
            (kk, without)
        }
    };
    let k = if ns <= n / 2 { ns } else { n - ns };
    let m = ((k as f64 + 1.0) * (n1 as f64 + 1.0) / (n as f64 + 2.0)).floor();
    m - f64::max(0.0, k as f64 - n2 as f64) < 10.0
}

pub const HYPER_COST_MAX: u64 = 1 << 27;
