//! C06: ziggurat primitives are exact — table identities (exhaustive, through the cfg hook) and the law of
//! StandardNormal / Exp1 on abscissa-aligned bins (DESIGN §5 C06).
use crate::families::{build, Cell, Fam, Ft};
use crate::refdist::reflaw;
use crate::report::{Ctx, Violation};
use crate::rng::hseed;
use crate::special::norm_sf;
use crate::stats::{edge_bounds, histogram, kl_bern, run_tests, EdgeB, Rejection, Slack, TestOpts, L_THRESH};
use serde_json::json;

fn viol(ctx: &Ctx, fam: &str, sym: &str, trig: String, what: String) {
    ctx.violation(Violation {
        property: ctx.property.clone(),
        family: fam.into(),
        float: "f64".into(),
        symptom: sym.into(),
        trigger: trig.clone(),
        what,
        case: json!({"kind": "table", "table": fam, "entry": trig}),
    });
}

/// Exhaustive table identities. `pdf` unnormalised (f(0)=1), `tail(r)` = integral of pdf beyond r.
pub fn check_table(ctx: &Ctx, name: &str, r: f64, x: &[f64; 257], f: &[f64; 257], pdf: &dyn Fn(f64) -> f64, tail: f64) {
    let mut n = 0u64;
    let mut t = |ok: bool, idx: String, msg: String| {
        n += 1;
        if !ok {
            viol(ctx, name, "table_identity", idx, msg);
        }
    };
    t(x[256] == 0.0, "x[256]".into(), format!("{name}: x[256] = {} != 0", x[256]));
    t(f[256] == 1.0, "f[256]".into(), format!("{name}: f[256] = {} != 1", f[256]));
    t(x[1] == r, "x[1]".into(), format!("{name}: x[1] = {} != R = {}", x[1], r));
    let v = r * pdf(r) + tail;
    t(((x[0] - v / pdf(r)) / x[0]).abs() <= 1e-8, "x[0]".into(), format!("{name}: x[0] = {} != v/pdf(R) = {}", x[0], v / pdf(r)));
    for i in 0..256 {
        t(x[i] > x[i + 1], format!("x[{i}]"), format!("{name}: x not strictly decreasing at {i}: {} <= {}", x[i], x[i + 1]));
        t(f[i] < f[i + 1], format!("f[{i}]"), format!("{name}: f not strictly increasing at {i}"));
    }
    for i in 0..257 {
        // f[0] belongs to the virtual abscissa x[0] of the base strip
        let d = (f[i] - pdf(x[i])).abs();
        t(d <= 1e-14, format!("f[{i}]"), format!("{name}: |f[{i}] - pdf(x[{i}])| = {:e} > 1e-14", d));
    }
    // layer areas: x[i] * (f[i+1] - f[i]) for i = 1..255, and the base strip v; all equal
    let mut areas: Vec<(String, f64)> = vec![("base".into(), v)];
    for i in 1..256 {
        areas.push((format!("layer[{i}]"), x[i] * (f[i + 1] - f[i])));
    }
    // layer 0 as stored: x[0] * f[1]... the base strip rectangle x[0]*f(R) must equal v by construction of x[0] (checked above)
    let mean = areas.iter().map(|a| a.1).sum::<f64>() / areas.len() as f64;
    for (nm, a) in &areas {
        t(((a - mean) / mean).abs() <= 1e-8, nm.clone(), format!("{name}: area of {nm} = {:.12e} differs from the mean {:.12e} by more than 1e-8 relative", a, mean));
    }
    ctx.eval(n);
    ctx.nontrivial_add(n);
    ctx.class(&format!("table_identities:{name}"), n);
}

pub fn tables(ctx: &Ctx) {
    let (nr, nx, nf) = rand_distr::verif_hooks::zig_norm();
    let (er, ex, ef) = rand_distr::verif_hooks::zig_exp();
    let npdf = |x: f64| (-x * x / 2.0).exp();
    let ntail = (std::f64::consts::PI * 2.0).sqrt() * norm_sf(nr);
    check_table(ctx, "ZIG_NORM", nr, nx, nf, &npdf, ntail);
    let epdf = |x: f64| (-x).exp();
    check_table(ctx, "ZIG_EXP", er, ex, ef, &epdf, (-er).exp());
}

fn edges_for(fam: Fam) -> Vec<f64> {
    let (r, x) = if fam == Fam::StandardNormal {
        let (r, x, _) = rand_distr::verif_hooks::zig_norm();
        (r, x)
    } else {
        let (r, x, _) = rand_distr::verif_hooks::zig_exp();
        (r, x)
    };
    let mut pos: Vec<f64> = vec![];
    // abscissae x[1..=256] ascending, each interval split in 4
    let mut xs: Vec<f64> = x[1..=256].to_vec();
    xs.sort_by(|a, b| a.partial_cmp(b).unwrap());
    for w in xs.windows(2) {
        for k in 0..4 {
            pos.push(w[0] + (w[1] - w[0]) * k as f64 / 4.0);
        }
    }
    pos.push(r);
    // 8 conditional-quantile bins beyond R
    for k in 1..8 {
        let q = k as f64 / 8.0;
        let e = if fam == Fam::StandardNormal {
            // solve sf(e) = sf(R) * (1-q)
            let target = norm_sf(r) * (1.0 - q);
            let (mut lo, mut hi) = (r, r + 10.0);
            for _ in 0..200 {
                let mid = 0.5 * (lo + hi);
                if norm_sf(mid) > target { lo = mid } else { hi = mid }
            }
            hi
        } else {
            r - (1.0 - q).ln()
        };
        pos.push(e);
    }
    let mut all = pos.clone();
    if fam == Fam::StandardNormal {
        for &e in &pos {
            if e != 0.0 {
                all.push(-e);
            }
        }
    }
    all.retain(|e| *e != 0.0 || fam == Fam::StandardNormal);
    all.sort_by(|a, b| a.partial_cmp(b).unwrap());
    all.dedup();
    if fam == Fam::Exp1 {
        all.retain(|&e| e > 0.0);
    }
    all
}

fn mirror_tests(eb: &[EdgeB], counts: &[u64], l: f64) -> Vec<Rejection> {
    // bins are symmetric about 0 by construction: bin i = (e[i-1], e[i]], mirror of bin i is bin k - i  (k = number of edges),
    // up to the open/closed end convention (probability-zero difference for a continuous law)
    let k = eb.len();
    let mut out = vec![];
    for i in 0..=(k / 2) {
        let j = k - i;
        if j <= i || j > k {
            continue;
        }
        let (a, b) = (counts[i], counts[j]);
        let m = a + b;
        if m == 0 {
            continue;
        }
        let ph = a as f64 / m as f64;
        let st = m as f64 * kl_bern(ph, 0.5, 0.5);
        if st > l {
            out.push(Rejection { kind: "T4".into(), idx: i, dir: if a > b { 1 } else { -1 }, at: if i < k { eb[i].x } else { f64::INFINITY }, observed: ph, allowed_lo: 0.5, allowed_hi: 0.5, stat: st });
        }
    }
    out
}

pub fn law(ctx: &Ctx, fam: Fam, ft: Ft, n: u64) {
    let cell = Cell::new(fam, ft, &[]);
    let s = build(&cell).unwrap();
    let lawr = reflaw(&cell).unwrap();
    let sl = Slack::for_cell(&cell, &lawr);
    let edges = edges_for(fam);
    let eb: Vec<EdgeB> = edges.iter().map(|&x| edge_bounds(&lawr, &sl, x)).collect();
    let seed = hseed(&[ctx.seed, fam as u64, ft as u64, 0xC06]);
    let opts = TestOpts::default();
    let symmetric = fam == Fam::StandardNormal;
    let run = |n: u64, seed: u64| -> (Vec<Rejection>, crate::stats::Hist) {
        let h = histogram(s.as_ref(), &edges, n, seed);
        let mut r = run_tests(&eb, &h, &opts);
        if symmetric {
            r.extend(mirror_tests(&eb, &h.counts, L_THRESH));
        }
        (r, h)
    };
    let (first, h) = run(n, seed);
    let mut confirmed = vec![];
    if !first.is_empty() {
        let (second, _) = run(4 * n, hseed(&[seed, 0xC0F1]));
        for r in second {
            if first.iter().any(|f| f.same_stat(&r)) {
                confirmed.push(r);
            }
        }
    }
    // a case of the sampled part is one bin of the layer-aligned partition (evaluations = bins tested)
    // T5 atom test on the primitive itself (a constant fallback in the tail loop would be an atom)
    {
        use crate::stats::{atom_candidates, atom_rejections, Src};
        let m: usize = if ctx.thorough() { 1 << 26 } else { 1 << 24 };
        let src = Src::Dyn(s.as_ref());
        let raw = src.raw(m, seed);
        let rej = atom_rejections(&lawr, &sl, ft, &atom_candidates(&raw, crate::stats::atom_min_count(m as u64, sl.rho_abs)), m as u64);
        drop(raw);
        if !rej.is_empty() {
            let raw2 = src.raw(4 * m, hseed(&[seed, 0xC0F1]));
            let c2: Vec<(f64, u64)> = rej.iter().map(|r| (r.at, raw2.iter().filter(|&&v| v == r.at).count() as u64)).collect();
            for r in atom_rejections(&lawr, &sl, ft, &c2, 4 * m as u64) {
                if rej.iter().any(|f| f.same_stat(&r)) {
                    confirmed.push(r);
                }
            }
        }
        ctx.class(&format!("atom_test_draws:{:?}:{:?}", fam, ft), m as u64);
    }
    ctx.eval(eb.len() as u64 + 1);
    ctx.class(&format!("draws:{:?}:{:?}", fam, ft), n);
    // non-trivial bins: expected count >= 1000
    let mut nt = 0u64;
    let mut min_exp = f64::INFINITY;
    for i in 0..=eb.len() {
        let pl = if i == 0 { 0.0 } else { eb[i - 1].p };
        let ph = if i == eb.len() { 1.0 } else { eb[i].p };
        let e = (ph - pl) * n as f64;
        if e >= 1000.0 {
            nt += 1;
        }
        if e < min_exp {
            min_exp = e;
        }
    }
    ctx.nontrivial_add(nt);
    ctx.sample(cell.hash64(), || json!({"primitive": cell.key(), "n": n, "edges": eb.len(), "bins_with_expected_ge_1000": nt, "min_expected_bin_count": min_exp, "min": h.min, "max": h.max, "first_stage_rejections": first.len(), "confirmed": confirmed.len()}));
    if let Some(r) = confirmed.iter().max_by(|a, b| a.stat.partial_cmp(&b.stat).unwrap_or(std::cmp::Ordering::Equal)) {
        ctx.violation(Violation {
            property: ctx.property.clone(),
            family: fam.name(),
            float: if ft == Ft::F32 { "f32".into() } else { "f64".into() },
            symptom: format!("law:{}", r.kind),
            trigger: format!("cell:{}", cell.key()),
            what: format!("{}: {} at x={:e}: observed {:.8e}, allowed [{:.8e}, {:.8e}] (n={}, confirmed on 4n; {} statistics confirmed)", cell.key(), r.kind, r.at, r.observed, r.allowed_lo, r.allowed_hi, n, confirmed.len()),
            case: json!({"kind": "ziglaw", "cell": cell, "n": n, "rejection": r}),
        });
    }
}

pub fn run(ctx: &Ctx) {
    tables(ctx);
    let (n64, n32) = if ctx.thorough() { (200_000_000_000u64, 20_000_000_000u64) } else { (4_000_000_000u64, 1_000_000_000u64) };
    for fam in [Fam::StandardNormal, Fam::Exp1] {
        law(ctx, fam, Ft::F64, n64);
        law(ctx, fam, Ft::F32, n32);
    }
    ctx.set_extra("resolution", json!({"cumulative_body_resolution_f64": (2.0 * L_THRESH * 0.25 / n64 as f64).sqrt(), "L": L_THRESH}));
}
