//! Byte decoders shared by the cargo-fuzz targets and `verif fuzz-replay` (DESIGN §2): bytes -> the same
//! Case types the proptest drivers use. The decoders enforce the quantifiers (at most one adversarial word, ...).
use crate::ctors::{special_floats, Ctor, CtorCase, ALL, SPECIAL_U64};
use crate::families::{build, Cell, Ft};
use crate::purity::{Action, Schedule};
use crate::report::{load_findings, Finding, Violation};
use crate::streams::{run_case, trigger_of, StreamCase};
use crate::weighted::{HistStats, Op, M};
use arbitrary::Unstructured;
use std::sync::OnceLock;

static POOL: OnceLock<Vec<Cell>> = OnceLock::new();
static FINDINGS: OnceLock<Vec<Finding>> = OnceLock::new();
static LATTICE: OnceLock<Vec<u64>> = OnceLock::new();

pub fn pool() -> &'static Vec<Cell> {
    POOL.get_or_init(|| crate::purity::cell_pool(0))
}
fn findings() -> &'static Vec<Finding> {
    FINDINGS.get_or_init(load_findings)
}
fn lattice() -> &'static Vec<u64> {
    LATTICE.get_or_init(crate::rng::lattice)
}

fn known(property: &str, family: &str, float: &str, symptom: &str, trigger: &str, case: serde_json::Value) -> bool {
    if std::env::var("VERIF_FUZZ_STRICT").is_ok() {
        return false;
    }
    let v = Violation { property: property.into(), family: family.into(), float: float.into(), symptom: symptom.into(), trigger: trigger.into(), what: String::new(), case };
    findings().iter().any(|f| f.matches(&v))
}

/// Returns Some(description) if the decoded case violates the property (and is not a listed known finding).
pub fn stream_case(data: &[u8]) -> Option<String> {
    let mut u = Unstructured::new(data);
    let p = pool();
    let ci = u.int_in_range(0..=(p.len() as u32 * 16 - 1)).ok()? / 16;
    let cell = p[ci as usize].clone();
    let seed: u64 = u.arbitrary().ok()?;
    let pos = u.int_in_range(0..=7u64).ok()?;
    let word = if u.ratio(3, 4).ok()? {
        let l = lattice();
        l[u.int_in_range(0..=(l.len() as u32 - 1)).ok()? as usize]
    } else {
        u.arbitrary().ok()?
    };
    let mut regions = vec![];
    for _ in 0..u.int_in_range(0..=2u8).ok()? {
        let rp = u.int_in_range(0..=7u64).ok()?;
        if rp != pos {
            regions.push((rp, u.int_in_range(0..=3u8).ok()?));
        }
    }
    let case = StreamCase { cell, seed, forced: vec![(pos, word)], regions };
    let s = build(&case.cell).ok()?;
    let res = run_case(s.as_ref(), &case);
    let (sym, msg) = res.violation?;
    let cj = serde_json::json!({"kind": "stream", "stream": case, "cell": case.cell});
    if known("C03", &case.cell.fam.name(), &crate::streams::ft_name(&case.cell), &sym, &trigger_of(&case), cj.clone())
        || (sym == "word_budget" && known("C05", &case.cell.fam.name(), &crate::streams::ft_name(&case.cell), &sym, &trigger_of(&case), cj))
    {
        return None;
    }
    Some(format!("{sym}: {msg} :: {}", serde_json::to_string(&case).unwrap_or_default()))
}

pub fn ctor_case(data: &[u8]) -> Option<String> {
    let mut u = Unstructured::new(data);
    let ctor: Ctor = ALL[u.int_in_range(0..=(ALL.len() as u8 - 1)).ok()? as usize];
    let ft = if ctor.has_f32() && u.arbitrary::<bool>().ok()? { Ft::F32 } else { Ft::F64 };
    let (nf, ni) = ctor.arity();
    let nf = if nf == usize::MAX { u.int_in_range(0..=8u8).ok()? as usize } else { nf };
    let sf = special_floats(ft);
    let mut fbits = vec![];
    for _ in 0..nf {
        let b = if u.ratio(1, 2).ok()? { sf[u.int_in_range(0..=(sf.len() as u8 - 1)).ok()? as usize] } else { let x: u64 = u.arbitrary().ok()?; if ft == Ft::F32 { x & 0xffff_ffff } else { x } };
        fbits.push(b);
    }
    let mut ints = vec![];
    for _ in 0..ni {
        ints.push(if u.ratio(1, 2).ok()? { SPECIAL_U64[u.int_in_range(0..=(SPECIAL_U64.len() as u8 - 1)).ok()? as usize] } else { u.arbitrary().ok()? });
    }
    let c = CtorCase { ctor, ft, fbits, ints };
    let (sym, msg) = crate::ctors::judge(&c)?;
    let fl = if !c.ctor.has_f32() { "-" } else if c.ft == Ft::F32 { "f32" } else { "f64" };
    if known("C04", &format!("{:?}", c.ctor), fl, &sym, &crate::ctors::arg_class(&c), serde_json::Value::Null) {
        return None;
    }
    Some(format!("{sym}: {msg} :: {}", serde_json::to_string(&c).unwrap_or_default()))
}

fn dec_weight(u: &mut Unstructured, float: bool, mx: u128) -> Option<M> {
    let m = dec_weight_raw(u, float, mx)?;
    // unsigned weight types have no negative values: the model must not contain what the type cannot hold
    // (mx is MAX of the type: unsigned iff it is of the form 2^k - 1 with k a multiple of 8)
    let unsigned = !float && (mx == u8::MAX as u128 || mx == u16::MAX as u128 || mx == u32::MAX as u128 || mx == u64::MAX as u128 || mx == u128::MAX);
    Some(match m {
        M::I { neg: true, .. } if unsigned => M::int(0),
        other => other,
    })
}

fn dec_weight_raw(u: &mut Unstructured, float: bool, mx: u128) -> Option<M> {
    Some(if float {
        match u.int_in_range(0..=7u8).ok()? {
            0 => M::F(0.0),
            1 => M::F(1.0),
            2 => M::F(-1.0),
            3 => M::F(f64::NAN),
            4 => M::F(-0.0),
            _ => M::F((u.arbitrary::<u32>().ok()? as f64) / 65536.0),
        }
    } else {
        match u.int_in_range(0..=7u8).ok()? {
            0 => M::int(0),
            1 => M::int(1),
            2 => M::I { neg: false, mag: mx },
            3 => M::I { neg: false, mag: mx - 1 },
            4 => M::int(-1),
            5 => M::I { neg: false, mag: mx / (u.int_in_range(1..=200u32).ok()? as u128) },
            _ => M::I { neg: false, mag: (u.arbitrary::<u64>().ok()? as u128) % (mx / 2 + 1) },
        }
    })
}

pub fn tree_history(data: &[u8]) -> Option<String> {
    let mut u = Unstructured::new(data);
    let ty = u.int_in_range(0..=5u8).ok()?;
    let (float, mx): (bool, u128) = match ty {
        0 => (false, u8::MAX as u128),
        1 => (false, i8::MAX as u128),
        2 => (false, u32::MAX as u128),
        3 => (false, i64::MAX as u128),
        4 => (true, 0),
        _ => (false, u128::MAX),
    };
    let n = u.int_in_range(1..=120u32).ok()?;
    let mut ops = vec![];
    for _ in 0..n {
        let op = match u.int_in_range(0..=9u8).ok()? {
            0..=3 => Op::Push(dec_weight(&mut u, float, mx)?),
            4 | 5 => Op::Pop,
            6..=8 => Op::Update(u.int_in_range(0..=1023u32).ok()? as usize, dec_weight(&mut u, float, mx)?),
            _ => {
                let k = u.int_in_range(0..=12u8).ok()?;
                let mut ws = vec![];
                for _ in 0..k {
                    ws.push(dec_weight(&mut u, float, mx)?);
                }
                Op::New(ws)
            }
        };
        ops.push(op);
    }
    let mut hs = HistStats::default();
    let r = match ty {
        0 => crate::weighted::run_history::<u8>(&ops, &mut hs),
        1 => crate::weighted::run_history::<i8>(&ops, &mut hs),
        2 => crate::weighted::run_history::<u32>(&ops, &mut hs),
        3 => crate::weighted::run_history::<i64>(&ops, &mut hs),
        4 => crate::weighted::run_history::<f64>(&ops, &mut hs),
        _ => crate::weighted::run_history::<u128>(&ops, &mut hs),
    };
    r.map(|(s, m)| format!("{s}: {m} :: {}", serde_json::to_string(&ops).unwrap_or_default()))
}

pub fn schedule(data: &[u8]) -> Option<String> {
    let mut u = Unstructured::new(data);
    let p = pool();
    let nobj = u.int_in_range(1..=6u8).ok()?;
    let mut cells = vec![];
    for _ in 0..nobj {
        cells.push(p[(u.int_in_range(0..=(p.len() as u32 * 16 - 1)).ok()? / 16) as usize].clone());
    }
    let seed: u64 = u.arbitrary().ok()?;
    let n = u.int_in_range(1..=150u32).ok()?;
    let mut steps = vec![];
    for _ in 0..n {
        let oi = u.int_in_range(0..=5u8).ok()? as usize;
        let a = match u.int_in_range(0..=10u8).ok()? {
            0..=4 => Action::SampleShared,
            5 | 6 => Action::SamplePrivate(u.arbitrary().ok()?),
            7 | 8 => Action::IterTake(u.arbitrary().ok()?),
            9 => Action::CloneAndSample,
            _ => match u.int_in_range(0..=2u8).ok()? { 0 => Action::RebuildAndSample, 1 => Action::CloneFrom(u.int_in_range(0..=5u8).ok()? as usize), _ => Action::DirtySlice(u.arbitrary().ok()?) },
        };
        steps.push((oi, a));
    }
    let s = Schedule { cells, steps, seed };
    crate::purity::run_schedule(&s).violation.map(|(a, b)| format!("{a}: {b} :: {}", serde_json::to_string(&s).unwrap_or_default()))
}

/// C08: a weight type, a vector (special magnitudes incl. MAX/len and its neighbours) -> constructor spec +
/// weights() reconstruction, then a few samples under forced words (index in range, non-zero weight).
pub fn alias_vector(data: &[u8]) -> Option<String> {
    use rand_distr::weighted::WeightedAliasIndex;
    use rand_distr::Distribution;
    let mut u = Unstructured::new(data);
    let ty = u.int_in_range(0..=6u8).ok()?;
    let len = u.int_in_range(0..=40u32).ok()? as usize;
    let (float, mx): (bool, u128) = match ty {
        0 => (false, u8::MAX as u128),
        1 => (false, i8::MAX as u128),
        2 => (false, u16::MAX as u128),
        3 => (false, u32::MAX as u128),
        4 => (false, i64::MAX as u128),
        5 => (true, 0),
        _ => (true, 1),
    };
    let mut ws = vec![];
    for _ in 0..len {
        let m = if !float && u.ratio(1, 3).ok()? {
            // the documented acceptance boundary w <= MAX / len and its neighbours
            let b = mx / len.max(1) as u128;
            M::I { neg: false, mag: match u.int_in_range(0..=2u8).ok()? { 0 => b, 1 => b.saturating_sub(1), _ => (b + 1).min(mx) } }
        } else if float && u.ratio(1, 4).ok()? {
            let fm = if mx == 1 { f32::MAX as f64 } else { f64::MAX };
            M::F(fm / len.max(1) as f64 / [1.0, 2.0, 4.0, 8.0, 1e3, 1e30][u.int_in_range(0..=5u8).ok()? as usize])
        } else {
            dec_weight(&mut u, float, mx)?
        };
        ws.push(m);
    }
    let w0: u64 = u.arbitrary().ok()?;
    let w1: u64 = u.arbitrary().ok()?;
    fn go<W: crate::weighted::Wt>(ws: &[M], w0: u64, w1: u64) -> Option<(String, String, String)>
    where
        WeightedAliasIndex<W>: Distribution<usize>,
    {
        // the model is the vector as the weight type sees it (an unsigned type has no -1, f32 rounds)
        let ws: Vec<M> = ws.iter().map(|&m| W::from_m(m).to_m()).collect();
        let ws = &ws[..];
        let cls = crate::weighted::vec_class_pub::<W>(ws);
        if let Some((s, m)) = crate::weighted::alias_structural::<W>(ws) {
            return Some((s, m, cls.to_string()));
        }
        let input: Vec<W> = ws.iter().map(|&m| W::from_m(m)).collect();
        if let Ok(Ok(d)) = crate::report::catch(|| WeightedAliasIndex::<W>::new(input)) {
            let l = lattice();
            for (k, &(a, b)) in [(w0, w1), (l[(w0 % l.len() as u64) as usize], w1), (w0, l[(w1 % l.len() as u64) as usize]), (u64::MAX, u64::MAX), (0, 0)].iter().enumerate() {
                let mut rng = crate::rng::VRng::from_env(k as u64);
                rng.force(0, a);
                rng.force(1, b);
                rng.begin_call();
                match crate::report::catch(|| d.sample(&mut rng)) {
                    Ok(i) => {
                        let bad = i >= ws.len() || (!W::IS_FLOAT && ws[i].is_zero()) || (W::IS_FLOAT && ws[i].f() == 0.0);
                        if bad {
                            return Some(("bad_index".into(), format!("WeightedAliasIndex<{}> {:?} returned index {i} (zero weight or out of range) with words {a:#x}, {b:#x}", W::NAME, ws), cls.to_string()));
                        }
                    }
                    Err(p) => return Some(("panic".into(), format!("WeightedAliasIndex<{}> {:?}: sample panicked: {}", W::NAME, ws, p.lines().next().unwrap_or("")), cls.to_string())),
                }
            }
        }
        None
    }
    let (r, wt) = match ty {
        0 => (go::<u8>(&ws, w0, w1), "u8"),
        1 => (go::<i8>(&ws, w0, w1), "i8"),
        2 => (go::<u16>(&ws, w0, w1), "u16"),
        3 => (go::<u32>(&ws, w0, w1), "u32"),
        4 => (go::<i64>(&ws, w0, w1), "i64"),
        5 => (go::<f64>(&ws, w0, w1), "f64"),
        _ => (go::<f32>(&ws, w0, w1), "f32"),
    };
    let (sym, msg, cls) = r?;
    if known("C08", "WeightedAliasIndex", wt, &sym, &cls, serde_json::Value::Null) {
        return None;
    }
    Some(format!("{sym}: {msg} :: {}", serde_json::to_string(&ws).unwrap_or_default()))
}

/// C10: a tree history, then try_sample under one forced word (and the largest / smallest draws)
pub fn tree_sample(data: &[u8]) -> Option<String> {
    let mut u = Unstructured::new(data);
    let ty = u.int_in_range(0..=5u8).ok()?;
    let (float, mx): (bool, u128) = match ty {
        0 => (false, u8::MAX as u128),
        1 => (false, i8::MAX as u128),
        2 => (false, u32::MAX as u128),
        3 => (false, i64::MAX as u128),
        4 => (true, 0),
        _ => (true, 1),
    };
    let n = u.int_in_range(1..=60u32).ok()?;
    let mut ops = vec![];
    for _ in 0..n {
        let op = match u.int_in_range(0..=9u8).ok()? {
            0..=3 => Op::Push(dec_weight(&mut u, float, mx)?),
            4 => Op::Pop,
            5..=8 => Op::Update(u.int_in_range(0..=255u32).ok()? as usize, dec_weight(&mut u, float, mx)?),
            _ => {
                let k = u.int_in_range(0..=12u8).ok()?;
                let mut ws = vec![];
                for _ in 0..k {
                    ws.push(dec_weight(&mut u, float, mx)?);
                }
                Op::New(ws)
            }
        };
        ops.push(op);
    }
    let pos = u.int_in_range(0..=1u64).ok()?;
    let word: u64 = if u.ratio(1, 2).ok()? { let l = lattice(); l[u.int_in_range(0..=(l.len() as u32 - 1)).ok()? as usize] } else { u.arbitrary().ok()? };
    let seed: u64 = u.arbitrary().ok()?;
    let (r, wt) = match ty {
        0 => (crate::weighted::tree_sample_case::<u8>(&ops, pos, word, seed), "u8"),
        1 => (crate::weighted::tree_sample_case::<i8>(&ops, pos, word, seed), "i8"),
        2 => (crate::weighted::tree_sample_case::<u32>(&ops, pos, word, seed), "u32"),
        3 => (crate::weighted::tree_sample_case::<i64>(&ops, pos, word, seed), "i64"),
        4 => (crate::weighted::tree_sample_case::<f64>(&ops, pos, word, seed), "f64"),
        _ => (crate::weighted::tree_sample_case::<f32>(&ops, pos, word, seed), "f32"),
    };
    let (sym, msg) = r?;
    if known("C10", "WeightedTreeIndex", wt, &sym, crate::streams::word_class(word), serde_json::Value::Null) {
        return None;
    }
    Some(format!("{sym}: {msg} :: word {word:#x} at {pos}, seed {seed}, ops {}", serde_json::to_string(&ops).unwrap_or_default()))
}

pub fn run_target(target: &str, data: &[u8]) -> Option<String> {
    match target {
        "alias_vector" => alias_vector(data),
        "tree_sample" => tree_sample(data),
        "stream_case" => stream_case(data),
        "ctor_case" => ctor_case(data),
        "tree_history" => tree_history(data),
        "schedule" => schedule(data),
        _ => None,
    }
}
