//! Validation of the reference laws against the committed scipy/mpmath table (DESIGN §3.3).
use crate::families::{Cell, Fam, Ft};
use crate::refdist::reflaw;
use serde::Deserialize;

#[derive(Deserialize)]
struct Row {
    fam: String,
    p: Vec<f64>,
    ip: Vec<u64>,
    x: f64,
    cdf: f64,
    sf: f64,
}

pub fn fam_from_str(s: &str) -> Option<Fam> {
    serde_json::from_value(serde_json::Value::String(s.to_string())).ok()
}

/// returns (rows checked, list of disagreements)
pub fn check(path: &str, verbose: bool) -> (usize, Vec<String>) {
    let txt = match std::fs::read_to_string(path) {
        Ok(t) => t,
        Err(e) => return (0, vec![format!("cannot read {path}: {e}")]),
    };
    let rows: Vec<Row> = match serde_json::from_str(&txt) {
        Ok(r) => r,
        Err(e) => return (0, vec![format!("cannot parse {path}: {e}")]),
    };
    let mut bad = vec![];
    let mut n = 0;
    let mut last: Option<(String, crate::refdist::RefLaw)> = None;
    for r in &rows {
        let fam = match fam_from_str(&r.fam) {
            Some(f) => f,
            None => {
                bad.push(format!("unknown family {}", r.fam));
                continue;
            }
        };
        let cell = Cell {
            fam,
            ft: Ft::F64,
            p: r.p.clone(),
            ip: r.ip.clone(),
        };
        let key = cell.key();
        if last.as_ref().map(|l| l.0 != key).unwrap_or(true) {
            match reflaw(&cell) {
                Some(l) => last = Some((key.clone(), l)),
                None => {
                    bad.push(format!("no reference for {key}"));
                    continue;
                }
            }
        }
        let law = &last.as_ref().unwrap().1;
        // a reference that declares a large error of its own cannot be validated by this table
        // (and would make the comparison below vacuous): that is a failure of the gate
        // (quadrature references must be tight; the deliberate approximations — Berry–Esseen for
        // Binomial with huge n, the overflow atom of Zeta — declare a bound that is still << 1)
        let cap = if fam == Fam::Nig { 1e-10 } else { 1e-2 };
        if !(law.rho_abs_extra <= cap) {
            bad.push(format!("{key}: reference declares rho_abs_extra={:e} > {cap:e}; golden comparison would be vacuous", law.rho_abs_extra));
            continue;
        }
        let c = (law.cdf)(r.x);
        let s = (law.sf)(r.x);
        n += 1;
        let m = r.cdf.min(r.sf);
        // agreement to 1e-8 relative in min(cdf, sf), plus the reference's stated absolute error
        let tol = 1e-8 * m + 1e-13 + law.rho_abs_extra;
        let (dc, ds) = ((c - r.cdf).abs(), (s - r.sf).abs());
        let ok_c = dc <= tol.max(1e-8 * r.cdf);
        let ok_s = ds <= tol.max(1e-8 * r.sf);
        if !(ok_c && ok_s) {
            bad.push(format!(
                "{key} x={:e}: cdf {:e} vs golden {:e} (d={:.2e}); sf {:e} vs golden {:e} (d={:.2e}) tol={:.2e}",
                r.x, c, r.cdf, dc, s, r.sf, ds, tol
            ));
        } else if verbose {
            println!("ok {key} x={:e} cdf={:e} sf={:e}", r.x, c, s);
        }
    }
    (n, bad)
}
