//! proptest driver shared by the tuple/history properties: fixed seed, no persistence, shrinking on.
use proptest::strategy::Strategy;
use proptest::test_runner::{Config, RngAlgorithm, TestCaseError, TestError, TestRng, TestRunner};

/// Runs `cases` generated values through `judge`; returns the shrunk failing value and message, if any.
/// `judge` must be a pure function of the value (it is re-run during shrinking).
pub fn search<S, F>(seed: u64, cases: u32, strategy: S, judge: F) -> Result<u32, (S::Value, String)>
where
    S: Strategy,
    S::Value: Clone + std::fmt::Debug,
    F: Fn(&S::Value) -> Option<String>,
{
    let mut bytes = [0u8; 32];
    for (i, b) in bytes.iter_mut().enumerate() {
        *b = (crate::rng::mix(seed.wrapping_add(i as u64 / 8)) >> ((i % 8) * 8)) as u8;
    }
    let cfg = Config {
        cases,
        failure_persistence: None,
        max_shrink_iters: 4096,
        verbose: 0,
        ..Config::default()
    };
    let mut runner = TestRunner::new_with_rng(cfg, TestRng::from_seed(RngAlgorithm::ChaCha, &bytes));
    let r = runner.run(&strategy, |v| match judge(&v) {
        None => Ok(()),
        Some(m) => Err(TestCaseError::fail(m)),
    });
    match r {
        Ok(()) => Ok(cases),
        Err(TestError::Fail(reason, value)) => Err((value, reason.message().to_string())),
        Err(TestError::Abort(reason)) => {
            // generator health problem: not a property violation
            eprintln!("proptest aborted: {}", reason.message());
            Ok(0)
        }
    }
}
