//! C15: serialised distributions round-trip to equal, identically sampling values (DESIGN §5 C15).
use crate::envelope::{classes, extra_cells, grid, random_cell};
use crate::families::{build, Cell, Fam, Ft, Sampler, ALIAS_INT, CONTINUOUS, DISCRETE, TREE_INT};
#[allow(unused_imports)]
use crate::families::Ft as _FtUsed;
use crate::report::{catch, Ctx, Violation};
use crate::rng::{hseed, BaseRng, VRng};
use rand::RngExt;
use rayon::prelude::*;
use serde_json::{json, Value};
use std::collections::BTreeMap;
use std::sync::Mutex;

fn same_samples(a: &dyn Sampler, b: &dyn Sampler, seed: u64) -> Option<String> {
    let (mut r1, mut r2) = (VRng::from_env(seed), VRng::from_env(seed));
    for i in 0..64 {
        let x = catch(|| a.sample_v(&mut r1));
        let y = catch(|| b.sample_v(&mut r2));
        match (x, y) {
            (Ok(x), Ok(y)) => {
                if x.bits() != y.bits() || r1.pos != r2.pos {
                    return Some(format!("sample {} differs: original {} ({} words so far), round-tripped {} ({} words)", i, x.show(), r1.pos, y.show(), r2.pos));
                }
            }
            (Err(_), Err(_)) => return None, // both panic identically: C03's business
            (Ok(_), Err(m)) => return Some(format!("sample {i}: the round-tripped value panicked: {m}")),
            (Err(_), Ok(_)) => return Some(format!("sample {i}: only the original panicked")),
        }
    }
    None
}

/// Ok(class) or Err((symptom, message))
pub fn check_cell(cell: &Cell, seed: u64) -> Result<&'static str, (String, String)> {
    let s = match build(cell) {
        Ok(s) => s,
        Err(_) => return Ok("not_constructible"),
    };
    let (via_value, via_text, text) = match s.serde_rt() {
        Some(x) => x,
        None => return Ok("no_serde_impl"),
    };
    let key = cell.key();
    // a value that does not compare equal to itself (a NaN in its representation) can never "round-trip to a
    // value that compares equal to the original", whatever the format
    if s.eq_dyn(s.as_ref()) == Some(false) {
        return Err(("not_equal".into(), format!("{key}: the value does not compare equal to itself (NaN in its internal representation {}), so no round trip can compare equal", s.debug())));
    }
    // an infinite internal field: serde_json writes null and cannot read it back as a float. If the type's own
    // deserialiser does accept the document, the result is judged like any other; if it does not, that is the
    // format's limitation (counted)
    let has_null = text != "null" && text.contains("null");
    if has_null && via_text.is_err() && via_value.is_err() {
        return Ok("non_finite_internal_field");
    }
    let judge = |route: &str, r: Result<Box<dyn Sampler>, String>| -> Result<(), (String, String)> {
        let d = r.map_err(|e| ("deserialize_failed".to_string(), format!("{key}: {route} route: {e}; serialized form {text}")))?;
        match s.eq_dyn(d.as_ref()) {
            Some(false) => return Err(("not_equal".into(), format!("{key}: {route} route: round-tripped value != original: {} vs {}", d.debug(), s.debug()))),
            Some(true) => {}
            None => {
                if d.debug() != s.debug() {
                    return Err(("not_equal".into(), format!("{key}: {route} route: Debug differs: {} vs {}", d.debug(), s.debug())));
                }
            }
        }
        if let Some((_, _, t2)) = d.serde_rt() {
            if t2 != text {
                return Err(("reserialize_differs".into(), format!("{key}: {route} route: re-serialisation differs: {t2} vs {text}")));
            }
        }
        if let Some(m) = same_samples(s.as_ref(), d.as_ref(), seed) {
            return Err(("samples_differ".into(), format!("{key}: {route} route: {m}")));
        }
        Ok(())
    };
    judge("value", via_value)?;
    match judge("text", via_text) {
        Ok(()) => Ok("ok"),
        // (serde_json with float_roundtrip prints the shortest decimal that reads back as the same f32 / f64:
        // the text route is exact for both float types, so no allowance is made for f32)
        Err(e) => Err(e),
    }
}

pub fn cells(ctx: &Ctx) -> Vec<Cell> {
    let k_rand = if ctx.thorough() { 10000 } else { 1500 };
    let mut v = vec![];
    for &fam in CONTINUOUS.iter().chain(DISCRETE.iter()) {
        let fts: &[Ft] = if fam.int_only() { &[Ft::F64] } else { &[Ft::F32, Ft::F64] };
        for &ft in fts {
            v.extend(grid(fam, ft));
            let mut r = BaseRng::from_env(hseed(&[ctx.seed, fam as u64, ft as u64, 0xC15]));
            for _ in 0..k_rand {
                v.push(random_cell(fam, ft, &mut r));
            }
        }
    }
    v.extend(extra_cells(ctx.seed, if ctx.thorough() { 40 } else { 8 }));
    // neighbours of "default-looking" values: every float parameter of a few grid cells of every family is set to
    // 0, +-1, 2, 1/2 and to the floats just below and above each (a serialiser that omits or normalises a field
    // "equal to its default" within a tolerance loses exactly these: seeded change R7-C15-2)
    {
        let mut near = vec![];
        for &fam in CONTINUOUS.iter().chain(DISCRETE.iter()) {
            let fts: &[Ft] = if fam.int_only() { &[Ft::F64] } else { &[Ft::F32, Ft::F64] };
            for &ft in fts {
                let g = grid(fam, ft);
                let step = (g.len() / 4).max(1);
                for c in g.iter().step_by(step).take(if ctx.thorough() { 16 } else { 4 }) {
                    for j in 0..c.p.len().min(4) {
                        for d in [0.0, 1.0, -1.0, 2.0, 0.5] {
                            for w in [c.ft.next_down(d), d, c.ft.next_up(d), -0.0] {
                                let mut n = c.clone();
                                n.p[j] = w;
                                if n != *c && matches!(crate::report::catch(|| crate::families::build(&n).is_ok()), Ok(true)) {
                                    near.push(n);
                                }
                            }
                        }
                    }
                }
            }
        }
        ctx.class("near_default_cells", near.len() as u64);
        v.extend(near);
    }
    // documented special values with a non-finite internal field
    for ft in [Ft::F32, Ft::F64] {
        v.push(Cell::new(Fam::Exp, ft, &[0.0]));
        v.push(Cell::new(Fam::Normal, ft, &[f64::NEG_INFINITY, 1.0]));
        v.push(Cell::new(Fam::Normal, ft, &[f64::INFINITY, 1.0]));
        v.push(Cell::new(Fam::LogNormalMeanCv, ft, &[0.0, 0.0]));
        v.push(Cell::new(Fam::Gamma, ft, &[2.0, f64::INFINITY]));
        v.push(Cell::new(Fam::Gamma, ft, &[f64::INFINITY, 2.0]));
    }
    // weighted indices of lengths 1..300 for every weight type
    let mut r = BaseRng::from_env(hseed(&[ctx.seed, 0x5E2D]));
    for (k, fam) in ALIAS_INT.iter().chain(TREE_INT.iter()).enumerate() {
        for len in [1usize, 2, 3, 7, 8, 33, 100, 300] {
            let cap: u64 = match k % 11 {
                0 => 255 / len.max(1) as u64,
                6 => 127 / len.max(1) as u64,
                1 => 65535 / len as u64,
                7 => 32767 / len as u64,
                _ => 1_000_000,
            };
            let ws: Vec<u64> = (0..len).map(|i| if i == 0 { cap.max(1).min(1) } else { r.random_range(0..=cap) }).collect();
            let ws = if cap == 0 { let mut w = vec![0u64; len]; w[0] = 1; if *fam as u32 >= Fam::TreeU8 as u32 || len <= 255 { w } else { w } } else { ws };
            v.push(Cell::newi(*fam, &ws, &[]));
        }
    }
    for fam in [Fam::AliasF, Fam::TreeF] {
        for ft in [Ft::F32, Ft::F64] {
            for len in [1usize, 2, 3, 7, 33, 100, 300] {
                let ws: Vec<f64> = (0..len).map(|_| if r.random_range(0..4) == 0 { 0.0 } else { r.random::<f64>() * 10.0 }).chain(std::iter::once(1.0)).collect();
                v.push(Cell::new(fam, ft, &ws));
            }
        }
    }
    let mut seen = std::collections::HashSet::new();
    v.retain(|c| seen.insert(c.key()));
    v
}

pub fn run(ctx: &Ctx) {
    let cs = cells(ctx);
    let types: Mutex<BTreeMap<String, String>> = Mutex::new(BTreeMap::new());
    cs.par_iter().for_each(|cell| {
        let seed = hseed(&[ctx.seed, cell.hash64(), 0x5E]);
        ctx.eval(1);
        let label = build(cell).map(|s| s.type_label().to_string()).unwrap_or_default();
        match check_cell(cell, seed) {
            Ok(class) => {
                ctx.class(&format!("outcome:{class}"), 1);
                if !label.is_empty() {
                    let mut t = types.lock().unwrap();
                    let e = t.entry(label).or_insert_with(|| class.to_string());
                    if class == "ok" {
                        *e = "ok".into();
                    }
                }
                if class == "ok" || class == "f32_text_route_artefact" {
                    ctx.nontrivial(cell.hash64());
                    for cl in classes(cell) {
                        ctx.class(&format!("variant:{cl}"), 1);
                    }
                }
            }
            Err((sym, msg)) => {
                ctx.violation(Violation {
                    property: ctx.property.clone(),
                    family: cell.fam.name(),
                    float: crate::streams::ft_name(cell),
                    symptom: sym,
                    trigger: format!("cell:{}", cell.key()),
                    what: msg,
                    case: json!({"kind": "serde", "cell": cell}),
                });
            }
        }
        ctx.sample(cell.hash64(), || {
            let txt = build(cell).ok().and_then(|s| s.serde_rt()).map(|x| x.2).unwrap_or_default();
            json!({"cell": cell.key(), "json": txt.chars().take(300).collect::<String>()})
        });
    });
    ctx.set_extra("types_and_serde_capability", json!(*types.lock().unwrap()));
    crate::weighted::serde_tree_histories(ctx);
}

pub fn replay(ctx: &Ctx, case: &Value) -> bool {
    let cell: Cell = match serde_json::from_value(case["cell"].clone()) {
        Ok(c) => c,
        Err(_) => return false,
    };
    ctx.eval(1);
    if let Err((sym, msg)) = check_cell(&cell, hseed(&[ctx.seed, cell.hash64(), 0x5E])) {
        ctx.violation(Violation { property: ctx.property.clone(), family: cell.fam.name(), float: crate::streams::ft_name(&cell), symptom: sym, trigger: format!("cell:{}", cell.key()), what: msg, case: case.clone() });
    }
    true
}
