//! Special functions in f64 (DESIGN §3.3). Only `libm` is used; nothing here calls rand_distr.
use std::f64::consts::{PI, SQRT_2};

pub fn norm_cdf(x: f64) -> f64 {
    0.5 * libm::erfc(-x / SQRT_2)
}
pub fn norm_sf(x: f64) -> f64 {
    0.5 * libm::erfc(x / SQRT_2)
}
pub fn norm_pdf(x: f64) -> f64 {
    (-0.5 * x * x).exp() / (2.0 * PI).sqrt()
}
/// ln Φ(x), accurate for very negative x
pub fn ln_norm_cdf(x: f64) -> f64 {
    if x > -30.0 {
        let c = norm_cdf(x);
        if x > 5.0 {
            return (-norm_sf(x)).ln_1p();
        }
        return c.ln();
    }
    // asymptotic: Φ(x) ~ φ(x)/(-x) * (1 - 1/x^2 + 3/x^4 - 15/x^6 + 105/x^8)
    let x2 = x * x;
    let s = 1.0 - 1.0 / x2 + 3.0 / (x2 * x2) - 15.0 / (x2 * x2 * x2) + 105.0 / (x2 * x2 * x2 * x2);
    -0.5 * x2 - 0.5 * (2.0 * PI).ln() - (-x).ln() + s.ln()
}

pub fn ln_gamma(x: f64) -> f64 {
    libm::lgamma(x)
}

/// ln(1+u) - u, accurate near 0
pub fn log1pmx(u: f64) -> f64 {
    if u.abs() < 0.3 {
        // series: -u^2/2 + u^3/3 - ...
        let mut term = -u;
        let mut sum = 0.0;
        let mut k = 2.0;
        loop {
            term *= -u;
            // term = (-1)^{k-1} u^k  (sign handled: start -u * -u = u^2 ; want -u^2/2)
            let t = -term / k;
            sum += t;
            if t.abs() < 1e-18 * sum.abs() || k > 400.0 {
                break;
            }
            k += 1.0;
        }
        sum
    } else {
        u.ln_1p() - u
    }
}

/// Stirling remainder: ln Γ(a) = (a-1/2) ln a - a + ln sqrt(2π) + stirl(a)
fn stirl(a: f64) -> f64 {
    if a < 15.0 {
        return ln_gamma(a) - ((a - 0.5) * a.ln() - a + 0.5 * (2.0 * PI).ln());
    }
    let a2 = a * a;
    (1.0 / 12.0 - (1.0 / 360.0 - (1.0 / 1260.0 - (1.0 / 1680.0 - 1.0 / (1188.0 * a2)) / a2) / a2) / a2) / a
}

/// x^a e^{-x} / Γ(a+1)... returns ln( x^a e^-x / Γ(a) )
fn ln_gamma_prefactor(a: f64, x: f64) -> f64 {
    if a < 10.0 {
        a * x.ln() - x - ln_gamma(a)
    } else {
        let mu = (x - a) / a;
        // a ln x - x - lnΓ(a) = a(ln(1+mu) - mu) + 0.5 ln(a/(2π)) - stirl(a)
        a * log1pmx(mu) + 0.5 * (a / (2.0 * PI)).ln() - stirl(a)
    }
}

/// Regularised incomplete gamma: returns (P(a,x), Q(a,x)).
pub fn gamma_pq(a: f64, x: f64) -> (f64, f64) {
    if !(x > 0.0) {
        return (0.0, 1.0);
    }
    if x.is_infinite() {
        return (1.0, 0.0);
    }
    let lnpre = ln_gamma_prefactor(a, x);
    if x < a + 1.0 {
        // series: P = pre * sum_{n>=0} x^n / (a (a+1) ... (a+n))
        let mut ap = a;
        let mut del = 1.0 / a;
        let mut sum = del;
        for _ in 0..10_000_000 {
            ap += 1.0;
            del *= x / ap;
            sum += del;
            if del.abs() < sum.abs() * 1e-17 {
                break;
            }
        }
        let p = (lnpre + sum.ln()).exp();
        let p = p.min(1.0);
        (p, 1.0 - p)
    } else {
        // Lentz continued fraction for Q
        let tiny = 1e-300;
        let mut b = x + 1.0 - a;
        let mut c = 1.0 / tiny;
        let mut d = 1.0 / b;
        let mut h = d;
        for i in 1..10_000_000u64 {
            let i = i as f64;
            let an = -i * (i - a);
            b += 2.0;
            d = an * d + b;
            if d.abs() < tiny {
                d = tiny;
            }
            c = b + an / c;
            if c.abs() < tiny {
                c = tiny;
            }
            d = 1.0 / d;
            let del = d * c;
            h *= del;
            if (del - 1.0).abs() < 1e-16 {
                break;
            }
        }
        let q = (lnpre + h.ln()).exp();
        let q = q.min(1.0);
        (1.0 - q, q)
    }
}

fn betacf(a: f64, b: f64, x: f64) -> f64 {
    let tiny = 1e-300;
    let qab = a + b;
    let qap = a + 1.0;
    let qam = a - 1.0;
    let mut c = 1.0;
    let mut d = 1.0 - qab * x / qap;
    if d.abs() < tiny {
        d = tiny;
    }
    d = 1.0 / d;
    let mut h = d;
    for m in 1..2_000_000u64 {
        let m = m as f64;
        let m2 = 2.0 * m;
        let aa = m * (b - m) * x / ((qam + m2) * (a + m2));
        d = 1.0 + aa * d;
        if d.abs() < tiny {
            d = tiny;
        }
        c = 1.0 + aa / c;
        if c.abs() < tiny {
            c = tiny;
        }
        d = 1.0 / d;
        h *= d * c;
        let aa = -(a + m) * (qab + m) * x / ((a + m2) * (qap + m2));
        d = 1.0 + aa * d;
        if d.abs() < tiny {
            d = tiny;
        }
        c = 1.0 + aa / c;
        if c.abs() < tiny {
            c = tiny;
        }
        d = 1.0 / d;
        let del = d * c;
        h *= del;
        if (del - 1.0).abs() < 1e-16 {
            break;
        }
    }
    h
}

/// ln B(a,b)-free prefactor: ln( x^a y^b / B(a,b) ), y = 1-x given separately.
fn ln_beta_prefactor(a: f64, b: f64, x: f64, y: f64) -> f64 {
    if a + b < 30.0 {
        return ln_gamma(a + b) - ln_gamma(a) - ln_gamma(b) + a * x.ln() + b * y.ln();
    }
    // Use Stirling-form to avoid cancellation for large a,b:
    // Γ(a+b)/(Γ(a)Γ(b)) x^a y^b with x0=a/(a+b), y0=b/(a+b):
    // = sqrt(ab/(2π(a+b))) * exp(a ln(x/x0) + b ln(y/y0)) * exp(stirl(a+b)-stirl(a)-stirl(b))
    let s = a + b;
    let x0 = a / s;
    let y0 = b / s;
    // a ln(x/x0) + b ln(y/y0) computed with log1pmx for accuracy: ln(x/x0) = ln(1+(x-x0)/x0)
    let u = (x - x0) / x0;
    let v = (y - y0) / y0;
    // note a*u + b*v = s*((x-x0) + (y-y0)) = 0 when x+y=1, so a ln(1+u)+b ln(1+v) = a log1pmx(u) + b log1pmx(v)
    let e = if (x + y - 1.0).abs() < 1e-12 && u.abs() < 0.3 && v.abs() < 0.3 {
        a * log1pmx(u) + b * log1pmx(v)
    } else {
        let lx = if u.abs() < 0.5 { u.ln_1p() } else { x.ln() - x0.ln() };
        let ly = if v.abs() < 0.5 { v.ln_1p() } else { y.ln() - y0.ln() };
        a * lx + b * ly
    };
    let (sa, sb) = (if a < 1e-300 { 0.0 } else { stirl_any(a) }, stirl_any(b));
    0.5 * (a * b / (2.0 * PI * s)).ln() + e + stirl_any(s) - sa - sb
}

fn stirl_any(a: f64) -> f64 {
    stirl(a)
}

/// Regularised incomplete beta I_x(a,b) and its complement; `y` must be 1-x (passed separately for accuracy).
pub fn ibeta(a: f64, b: f64, x: f64, y: f64) -> (f64, f64) {
    if !(x > 0.0) {
        return (0.0, 1.0);
    }
    if !(y > 0.0) {
        return (1.0, 0.0);
    }
    let lnpre = ln_beta_prefactor(a, b, x, y);
    if x < (a + 1.0) / (a + b + 2.0) {
        let v = (lnpre + betacf(a, b, x).ln() - a.ln()).exp().min(1.0);
        (v, 1.0 - v)
    } else {
        let v = (lnpre + betacf(b, a, y).ln() - b.ln()).exp().min(1.0);
        (1.0 - v, v)
    }
}

/// Gauss–Legendre nodes/weights on [-1,1] (n points), by Newton iteration.
pub fn gauss_legendre(n: usize) -> (Vec<f64>, Vec<f64>) {
    let mut x = vec![0.0; n];
    let mut w = vec![0.0; n];
    let m = (n + 1) / 2;
    for i in 0..m {
        let mut z = (PI * (i as f64 + 0.75) / (n as f64 + 0.5)).cos();
        let mut pp = 0.0;
        for _ in 0..100 {
            let mut p1 = 1.0;
            let mut p2 = 0.0;
            for j in 0..n {
                let p3 = p2;
                p2 = p1;
                p1 = ((2.0 * j as f64 + 1.0) * z * p2 - j as f64 * p3) / (j as f64 + 1.0);
            }
            pp = n as f64 * (z * p1 - p2) / (z * z - 1.0);
            let z1 = z;
            z = z1 - p1 / pp;
            if (z - z1).abs() < 1e-16 {
                break;
            }
        }
        x[i] = -z;
        x[n - 1 - i] = z;
        w[i] = 2.0 / ((1.0 - z * z) * pp * pp);
        w[n - 1 - i] = w[i];
    }
    (x, w)
}

/// Owen's T(h, a) = (1/2π) ∫_0^{atan a} exp(-h²/(2 cos²θ)) dθ
pub fn owens_t(h: f64, a: f64) -> f64 {
    if a == 0.0 {
        return 0.0;
    }
    let sign = if a < 0.0 { -1.0 } else { 1.0 };
    let up = a.abs().atan();
    thread_local! {
        static GL: (Vec<f64>, Vec<f64>) = gauss_legendre(48);
    }
    let panels = 16;
    let hh = 0.5 * h * h;
    let mut total = 0.0;
    GL.with(|gl| {
        for p in 0..panels {
            let lo = up * p as f64 / panels as f64;
            let hi = up * (p + 1) as f64 / panels as f64;
            let mid = 0.5 * (lo + hi);
            let half = 0.5 * (hi - lo);
            let mut s = 0.0;
            for (xi, wi) in gl.0.iter().zip(gl.1.iter()) {
                let th = mid + half * xi;
                let c = th.cos();
                s += wi * (-hh / (c * c)).exp();
            }
            total += s * half;
        }
    });
    sign * total / (2.0 * PI)
}

/// Generalised harmonic number H(n, s) = sum_{k=1}^n k^{-s}; n may be huge (float) or +inf (s>1).
pub fn harmonic(n: f64, s: f64) -> f64 {
    if n < 1.0 {
        return 0.0;
    }
    let nf = n.floor();
    const M: f64 = 20000.0;
    if nf <= M {
        // sum small to large for accuracy
        let mut acc = 0.0;
        let mut k = nf;
        while k >= 1.0 {
            acc += k.powf(-s);
            k -= 1.0;
        }
        return acc;
    }
    harmonic(M, s) + harmonic_tail(M, nf, s)
}

/// sum_{k=m+1}^{n} k^{-s} by Euler–Maclaurin (m >= 1000), n may be +inf if s > 1
pub fn harmonic_tail(m: f64, n: f64, s: f64) -> f64 {
    if n <= m {
        return 0.0;
    }
    // sum_{k=m}^{n} f(k) = ∫_m^n f + (f(m)+f(n))/2 + sum B2j/(2j)! (f^(2j-1)(n) - f^(2j-1)(m))
    let f = |x: f64| if x.is_infinite() { 0.0 } else { x.powf(-s) };
    let integral = if (s - 1.0).abs() < 1e-12 {
        if n.is_infinite() {
            f64::INFINITY
        } else {
            (n / m).ln()
        }
    } else {
        // (n^{1-s} - m^{1-s})/(1-s), computed stably with expm1 when s close to 1
        let a = (1.0 - s) * m.ln();
        let b = if n.is_infinite() { f64::NEG_INFINITY } else { (1.0 - s) * n.ln() };
        if n.is_infinite() {
            -a.exp() / (1.0 - s)
        } else {
            // e^b - e^a = e^a (e^{b-a} - 1)
            a.exp() * (b - a).exp_m1() / (1.0 - s)
        }
    };
    let d1 = |x: f64| if x.is_infinite() { 0.0 } else { -s * x.powf(-s - 1.0) };
    let d3 = |x: f64| if x.is_infinite() { 0.0 } else { -s * (s + 1.0) * (s + 2.0) * x.powf(-s - 3.0) };
    let d5 = |x: f64| {
        if x.is_infinite() {
            0.0
        } else {
            -s * (s + 1.0) * (s + 2.0) * (s + 3.0) * (s + 4.0) * x.powf(-s - 5.0)
        }
    };
    let em = integral + 0.5 * (f(m) + f(n)) + (d1(n) - d1(m)) / 12.0 - (d3(n) - d3(m)) / 720.0
        + (d5(n) - d5(m)) / 30240.0;
    em - f(m)
}

pub fn zeta(s: f64) -> f64 {
    harmonic(f64::INFINITY, s)
}

#[cfg(test)]
mod tests {
    use super::*;
    #[test]
    fn basics() {
        assert!((zeta(2.0) - PI * PI / 6.0).abs() < 1e-13);
        assert!((harmonic(10.0, 1.0) - 2.9289682539682538).abs() < 1e-13);
        let (p, q) = gamma_pq(2.5, 1.7);
        assert!((p + q - 1.0).abs() < 1e-14);
        assert!((owens_t(0.0, 1.0) - 0.125).abs() < 1e-14);
        assert!((log1pmx(1e-3) - ((1.0f64 + 1e-3).ln() - 1e-3)).abs() < 1e-15);
    }
}
