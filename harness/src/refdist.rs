//! Reference laws (DESIGN §3.3): the independent side of every law oracle.
use crate::families::{Cell, Fam, Ft};
use crate::special::*;
use std::f64::consts::PI;
use std::sync::Arc;

type F1 = Arc<dyn Fn(f64) -> f64 + Send + Sync>;

#[derive(Clone)]
pub struct RefLaw {
    /// P(X <= x)
    pub cdf: F1,
    /// P(X > x)
    pub sf: F1,
    pub discrete: bool,
    /// support bounds (inclusive where finite)
    pub lo: f64,
    pub hi: f64,
    /// location used in the output-rounding allowance δ(e)
    pub loc: f64,
    /// extra absolute slack from an approximated reference (Berry–Esseen, Le Cam)
    pub rho_abs_extra: f64,
    /// conditioning number κ(θ) for the relative slack
    pub kappa: f64,
    /// for discrete laws: integers with pmf >= 1e-4 (their own bins), at most 4000
    pub atoms: Vec<f64>,
    /// structural edges to add (modes, zero, …)
    pub extra_edges: Vec<f64>,
    pub note: String,
}

impl RefLaw {
    fn cont(cdf: F1, sf: F1, lo: f64, hi: f64) -> RefLaw {
        RefLaw {
            cdf,
            sf,
            discrete: false,
            lo,
            hi,
            loc: 0.0,
            rho_abs_extra: 0.0,
            kappa: 1.0,
            atoms: vec![],
            extra_edges: vec![],
            note: String::new(),
        }
    }
}

fn a1<Fn1: Fn(f64) -> f64 + Send + Sync + 'static>(f: Fn1) -> F1 {
    Arc::new(f)
}

/// affine transform of a standard law: X = loc + scale*Z, scale may be negative.
fn affine(z_cdf: F1, z_sf: F1, loc: f64, scale: f64, lo: f64, hi: f64) -> RefLaw {
    if scale == 0.0 {
        let c = a1(move |x| if x >= loc { 1.0 } else { 0.0 });
        let s = a1(move |x| if x >= loc { 0.0 } else { 1.0 });
        let mut r = RefLaw::cont(c, s, loc, loc);
        r.loc = loc;
        return r;
    }
    let (c, s): (F1, F1) = if scale > 0.0 {
        let (zc, zs) = (z_cdf.clone(), z_sf.clone());
        (a1(move |x| zc((x - loc) / scale)), a1(move |x| zs((x - loc) / scale)))
    } else {
        // continuous Z: P(loc + scale Z <= x) = P(Z >= (x-loc)/scale) = sf
        let (zc, zs) = (z_cdf.clone(), z_sf.clone());
        (a1(move |x| zs((x - loc) / scale)), a1(move |x| zc((x - loc) / scale)))
    };
    let (l, h) = if scale > 0.0 {
        (loc + scale * lo, loc + scale * hi)
    } else {
        (loc + scale * hi, loc + scale * lo)
    };
    let mut r = RefLaw::cont(c, s, l, h);
    r.loc = loc;
    r
}

pub struct Window {
    pub lo: u64,
    pub cdf: Vec<f64>, // P(X <= lo+i)
    pub sf: Vec<f64>,  // P(X > lo+i)
    pub pmf: Vec<f64>,
}

impl Window {
    /// Build from unnormalised weights relative to the mode.
    pub fn from_weights(lo: u64, w: Vec<f64>) -> Window {
        // sum small-to-large on both sides
        let total: f64 = {
            let mut v = w.clone();
            v.sort_by(|a, b| a.partial_cmp(b).unwrap());
            v.iter().sum()
        };
        let pmf: Vec<f64> = w.iter().map(|x| x / total).collect();
        let n = pmf.len();
        let mut cdf = vec![0.0; n];
        let mut acc = 0.0;
        for i in 0..n {
            acc += pmf[i];
            cdf[i] = acc.min(1.0);
        }
        let mut sf = vec![0.0; n];
        let mut acc = 0.0f64;
        for i in (0..n).rev() {
            sf[i] = acc.min(1.0);
            acc += pmf[i];
        }
        Window { lo, cdf, sf, pmf }
    }
    pub fn law(self, support_lo: f64, support_hi: f64) -> RefLaw {
        let w = Arc::new(self);
        let w1 = w.clone();
        let w2 = w.clone();
        let cdf = a1(move |x: f64| {
            let k = x.floor();
            if k < w1.lo as f64 {
                return 0.0;
            }
            let i = (k - w1.lo as f64) as usize;
            if i >= w1.cdf.len() {
                1.0
            } else {
                w1.cdf[i]
            }
        });
        let sf = a1(move |x: f64| {
            let k = x.floor();
            if k < w2.lo as f64 {
                return 1.0;
            }
            let i = (k - w2.lo as f64) as usize;
            if i >= w2.sf.len() {
                0.0
            } else {
                w2.sf[i]
            }
        });
        let mut atoms: Vec<(f64, f64)> = w
            .pmf
            .iter()
            .enumerate()
            .filter(|(_, &p)| p >= 1e-4)
            .map(|(i, &p)| ((w.lo + i as u64) as f64, p))
            .collect();
        if atoms.len() > 4000 {
            atoms.sort_by(|a, b| b.1.partial_cmp(&a.1).unwrap());
            atoms.truncate(4000);
        }
        let mut atoms: Vec<f64> = atoms.into_iter().map(|a| a.0).collect();
        atoms.sort_by(|a, b| a.partial_cmp(b).unwrap());
        let mut r = RefLaw::cont(cdf, sf, support_lo, support_hi);
        r.discrete = true;
        r.atoms = atoms;
        r
    }
}

const WINDOW_MAX: f64 = 1.0e7;

fn binomial_law(n: u64, p: f64) -> RefLaw {
    if p == 0.0 || n == 0 {
        return Window::from_weights(0, vec![1.0]).law(0.0, 0.0);
    }
    if p == 1.0 {
        return Window::from_weights(n, vec![1.0]).law(n as f64, n as f64);
    }
    let nf = n as f64;
    let q = 1.0 - p;
    let sd = (nf * p * q).sqrt();
    let half = (12.0 * sd + 40.0).ceil();
    if 2.0 * half > WINDOW_MAX {
        // approximate reference with stated error
        let mean = nf * p;
        if p <= 1e-9 {
            let mut r = poisson_law(mean);
            r.rho_abs_extra += p; // Le Cam: d_TV <= n p^2 <= p * (np) ... bounded by p*min(1,np) <= p for np<=1; use np*p
            r.rho_abs_extra = (mean * p).max(p);
            r.hi = nf;
            r.note = "Poisson(np) reference (Le Cam)".into();
            return r;
        }
        if q <= 1e-9 {
            // mirror: n - X ~ approx Poisson(nq)
            let inner = poisson_law(nf * q);
            let (ic, is) = (inner.cdf.clone(), inner.sf.clone());
            // P(X <= x) = P(n - X >= n - x) = P(Y >= n-x) = sf_Y(n-x-1)
            let cdf = a1(move |x: f64| is(nf - x.floor() - 1.0));
            let sf = a1(move |x: f64| ic(nf - x.floor() - 1.0));
            let mut r = RefLaw::cont(cdf, sf, 0.0, nf);
            r.discrete = true;
            r.rho_abs_extra = (nf * q * q).max(q) + inner.rho_abs_extra;
            r.note = "mirrored Poisson(nq) reference (Le Cam)".into();
            return r;
        }
        let cdf = a1(move |x: f64| norm_cdf((x.floor() + 0.5 - mean) / sd));
        let sf = a1(move |x: f64| norm_sf((x.floor() + 0.5 - mean) / sd));
        let mut r = RefLaw::cont(cdf, sf, 0.0, nf);
        r.discrete = true;
        r.loc = mean;
        r.rho_abs_extra = 0.56 * (p * p + q * q) / sd + 1e-12; // Berry–Esseen for Bernoulli sums: C ρ/(σ³√n) = C (p²+q²)/sqrt(npq)
        r.note = "normal reference (Berry-Esseen)".into();
        return r;
    }
    let mode = ((nf + 1.0) * p).floor().min(nf);
    let lo = (mode - half).max(0.0) as u64;
    let hi = (mode + half).min(nf) as u64;
    let mode_u = mode as u64;
    let len = (hi - lo + 1) as usize;
    let mut w = vec![0.0; len];
    let mi = (mode_u - lo) as usize;
    w[mi] = 1.0;
    let r = p / q;
    // upward: pmf(k+1)/pmf(k) = (n-k)/(k+1) * p/q
    for k in mode_u..hi {
        let i = (k - lo) as usize;
        w[i + 1] = w[i] * ((n - k) as f64 / (k + 1) as f64) * r;
    }
    for k in (lo..mode_u).rev() {
        let i = (k - lo) as usize;
        // pmf(k) = pmf(k+1) * (k+1)/(n-k) * q/p
        w[i] = w[i + 1] * ((k + 1) as f64 / (n - k) as f64) / r;
    }
    let mut law = Window::from_weights(lo, w).law(0.0, nf);
    law.loc = nf * p;
    law
}

fn poisson_law(lambda: f64) -> RefLaw {
    let sd = lambda.sqrt();
    let half = (12.0 * sd + 40.0).ceil();
    if 2.0 * half > WINDOW_MAX {
        let cdf = a1(move |x: f64| norm_cdf((x.floor() + 0.5 - lambda) / sd));
        let sf = a1(move |x: f64| norm_sf((x.floor() + 0.5 - lambda) / sd));
        let mut r = RefLaw::cont(cdf, sf, 0.0, f64::INFINITY);
        r.discrete = true;
        r.loc = lambda;
        r.rho_abs_extra = 0.56 / sd + 1e-12;
        r.note = "normal reference (Berry-Esseen)".into();
        return r;
    }
    let mode = lambda.floor();
    let lo = (mode - half).max(0.0) as u64;
    let hi = (mode + half) as u64;
    let mode_u = mode as u64;
    let len = (hi - lo + 1) as usize;
    let mut w = vec![0.0; len];
    w[(mode_u - lo) as usize] = 1.0;
    for k in mode_u..hi {
        let i = (k - lo) as usize;
        w[i + 1] = w[i] * lambda / (k + 1) as f64;
    }
    for k in (lo..mode_u).rev() {
        let i = (k - lo) as usize;
        w[i] = w[i + 1] * (k + 1) as f64 / lambda;
    }
    let mut law = Window::from_weights(lo, w).law(0.0, f64::INFINITY);
    law.loc = lambda;
    law
}

/// Hypergeometric(N, K, n): P(X=x) = C(K,x) C(N-K,n-x)/C(N,n)
fn hypergeometric_law(nn: u64, kk: u64, n: u64) -> RefLaw {
    let smin = (n + kk).saturating_sub(nn);
    let smax = n.min(kk);
    if smin == smax {
        return Window::from_weights(smin, vec![1.0]).law(smin as f64, smax as f64);
    }
    let (nf, kf, sf_) = (nn as f64, kk as f64, n as f64);
    let mode = (((sf_ + 1.0) * (kf + 1.0)) / (nf + 2.0)).floor().clamp(smin as f64, smax as f64) as u64;
    let var = sf_ * (kf / nf) * (1.0 - kf / nf) * ((nf - sf_) / (nf - 1.0).max(1.0));
    let half = (12.0 * var.sqrt() + 40.0).ceil() as u64;
    let lo = mode.saturating_sub(half).max(smin);
    let hi = (mode.saturating_add(half)).min(smax);
    let len = (hi - lo + 1) as usize;
    let mut w = vec![0.0; len];
    w[(mode - lo) as usize] = 1.0;
    // pmf(x+1)/pmf(x) = (K-x)(n-x) / ((x+1)(N-K-n+x+1))
    let ratio = |x: u64| -> f64 {
        ((kk - x) as f64 * (n - x) as f64) / ((x + 1) as f64 * ((nn - kk) as f64 - n as f64 + x as f64 + 1.0))
    };
    for x in mode..hi {
        let i = (x - lo) as usize;
        w[i + 1] = w[i] * ratio(x);
    }
    for x in (lo..mode).rev() {
        let i = (x - lo) as usize;
        w[i] = w[i + 1] / ratio(x);
    }
    let mut law = Window::from_weights(lo, w).law(smin as f64, smax as f64);
    law.loc = sf_ * kf / nf;
    law
}

fn geometric_law(p: f64) -> RefLaw {
    if p == 1.0 {
        return Window::from_weights(0, vec![1.0]).law(0.0, 0.0);
    }
    if 1.0 - p == 1.0 {
        // documented edge case: "If p == 0.0 or 1.0 - p rounds to 1.0 then sampling returns u64::MAX"
        let m = u64::MAX as f64;
        let mut r = RefLaw::cont(a1(move |x| if x >= m { 1.0 } else { 0.0 }), a1(move |x| if x >= m { 0.0 } else { 1.0 }), m, m);
        r.discrete = true;
        r.atoms = vec![m];
        r.note = "documented constant u64::MAX".into();
        return r;
    }
    let l1 = (-p).ln_1p(); // ln(1-p)
    let cdf = a1(move |x: f64| {
        let k = x.floor();
        if k < 0.0 {
            0.0
        } else {
            -(((k + 1.0) * l1).exp_m1())
        }
    });
    let sf = a1(move |x: f64| {
        let k = x.floor();
        if k < 0.0 {
            1.0
        } else {
            ((k + 1.0) * l1).exp()
        }
    });
    let mut r = RefLaw::cont(cdf, sf, 0.0, f64::INFINITY);
    r.discrete = true;
    // atoms: pmf(k) = p (1-p)^k >= 1e-4
    let mut atoms = vec![];
    let mut k = 0.0;
    while atoms.len() < 4000 {
        let pm = p * (k * l1).exp();
        if pm < 1e-4 {
            break;
        }
        atoms.push(k);
        k += 1.0;
    }
    r.atoms = atoms;
    r
}

fn zipf_law(n: f64, s: f64) -> RefLaw {
    let n = n.floor();
    let total = harmonic(n, s);
    // cache H(k,s) for k <= 20000 is implicit in `harmonic`; precompute head for speed
    let head_len = n.min(20000.0) as usize;
    let mut head = vec![0.0; head_len + 1];
    // accurate prefix sums via Kahan
    let mut acc = 0.0;
    let mut comp = 0.0;
    for k in 1..=head_len {
        let y = (k as f64).powf(-s) - comp;
        let t = acc + y;
        comp = (t - acc) - y;
        acc = t;
        head[k] = acc;
    }
    let head = Arc::new(head);
    let h1 = head.clone();
    let hm = head[head_len];
    let cdf_k = move |k: f64| -> f64 {
        if k < 1.0 {
            0.0
        } else if k >= n {
            total
        } else if (k as usize) <= head_len {
            h1[k as usize]
        } else {
            hm + harmonic_tail(head_len as f64, k, s)
        }
    };
    let c2 = cdf_k.clone();
    let cdf = a1(move |x: f64| (cdf_k(x.floor()) / total).min(1.0));
    let sf = a1(move |x: f64| {
        let k = x.floor();
        if k < 1.0 {
            1.0
        } else if k >= n {
            0.0
        } else if k > 1000.0 {
            // tail directly
            (harmonic_tail(k, n, s) / total).max(0.0)
        } else {
            ((total - c2(k)) / total).max(0.0)
        }
    });
    let mut r = RefLaw::cont(cdf, sf, 1.0, n);
    r.discrete = true;
    let mut atoms = vec![];
    let mut k = 1.0;
    while k <= n && atoms.len() < 4000 {
        if k.powf(-s) / total < 1e-4 {
            break;
        }
        atoms.push(k);
        k += 1.0;
    }
    r.atoms = atoms;
    r
}

fn zeta_law(s: f64) -> RefLaw {
    let mut r = zipf_law(f64::INFINITY, s);
    r.hi = f64::INFINITY;
    r
}

struct NigTable {
    z: Vec<f64>,
    w: Vec<f64>,
    beta: f64,
}

fn nig_law(alpha: f64, beta: f64) -> RefLaw {
    let r = beta / alpha;
    let gamma = alpha * (1.0 - r * r).sqrt();
    let mu = 1.0 / gamma;
    let lam = 1.0;
    // log-space trapezoid for Z ~ IG(mu, lam)
    // g(s) = ln f_Z(e^s) + s, written in s so that tiny / huge z neither overflow nor underflow
    let g = |s: f64| -> f64 {
        let z = s.exp();
        0.5 * ((lam / (2.0 * PI)).ln() - 3.0 * s) - lam * (z - mu) * (z - mu) / (2.0 * mu * mu * z) + s
    };
    let h = 0.002;
    let s0 = mu.ln();
    let mut pts: Vec<(f64, f64)> = vec![];
    let peak = {
        let mut best = f64::NEG_INFINITY;
        let mut i = -60000i64;
        while i <= 60000 {
            let v = g(s0 + i as f64 * 0.01);
            if v.is_finite() && v > best {
                best = v;
            }
            i += 1;
        }
        best
    };
    let mut i = -600000i64;
    while i <= 600000 {
        let s = s0 + i as f64 * h;
        let v = g(s);
        if v.is_finite() && v > peak - 80.0 {
            pts.push((s.exp(), v.exp() * h));
        }
        i += 1;
    }
    let total: f64 = pts.iter().map(|p| p.1).sum();
    let tab = Arc::new(NigTable {
        z: pts.iter().map(|p| p.0).collect(),
        w: pts.iter().map(|p| p.1 / total).collect(),
        beta,
    });
    let t1 = tab.clone();
    let t2 = tab.clone();
    let cdf = a1(move |x: f64| {
        let mut acc = 0.0;
        for (z, w) in t1.z.iter().zip(t1.w.iter()) {
            acc += w * norm_cdf((x - t1.beta * z) / z.sqrt());
        }
        acc
    });
    let sf = a1(move |x: f64| {
        let mut acc = 0.0;
        for (z, w) in t2.z.iter().zip(t2.w.iter()) {
            acc += w * norm_sf((x - t2.beta * z) / z.sqrt());
        }
        acc
    });
    let mut law = RefLaw::cont(cdf, sf, f64::NEG_INFINITY, f64::INFINITY);
    law.note = format!("IG mixture quadrature: {} nodes, mass {:.15}", tab.z.len(), total);
    // 2e-11: the golden NIG rows (mpmath numerical integration) are themselves consistent only to
    // ~3e-12 in cdf+sf-1, and agree with this quadrature to 1.4e-11 absolute in the 1e-6 tails
    law.rho_abs_extra = (total - 1.0).abs() + 2e-11;
    law
}

/// κ(θ): largest shape-like parameter of the cell (DESIGN §3.2)
pub fn kappa(cell: &Cell) -> f64 {
    let p = &cell.p;
    let g = |i: usize| p.get(i).copied().unwrap_or(1.0).abs();
    let k = match cell.fam {
        Fam::Gamma => g(0).max(1.0 / g(0)),
        Fam::ChiSquared | Fam::StudentT => g(0).max(1.0 / g(0)),
        Fam::FisherF => g(0).max(g(1)).max(1.0 / g(0)).max(1.0 / g(1)),
        Fam::Beta => g(0).max(g(1)).max(1.0 / g(0)).max(1.0 / g(1)),
        Fam::Pert | Fam::PertMean => (g(3) + 2.0).max((g(0).max(g(1))) / (p[1] - p[0]).abs()) * if cell.fam == Fam::PertMean { 1.0 + 2.0 / g(3).max(1e-3) } else { 1.0 },
        Fam::LogNormalMeanCv => g(1).max(1.0 / g(1).max(1e-3)).max(g(0).ln().abs()),
        Fam::Pareto | Fam::Weibull => g(1).max(1.0 / g(1)),
        Fam::Frechet => g(2).max(1.0 / g(2)),
        Fam::SkewNormal => g(2),
        Fam::InverseGaussian => (g(1) / g(0)).max(g(0) / g(1)),
        Fam::Nig => g(0).max(1.0 / g(0)) / (1.0 - (g(1) / g(0)).powi(2)).max(1e-3),
        Fam::Poisson => g(0),
        Fam::Zipf => g(1).max(1.0),
        Fam::Zeta => g(0).max(1.0 / (g(0) - 1.0)),
        Fam::LogNormal => g(1).max(g(0)),
        _ => 1.0,
    };
    k.max(1.0)
}

/// The reference law of a cell (continuous and discrete univariate families).
pub fn reflaw(cell: &Cell) -> Option<RefLaw> {
    let p = &cell.p;
    let g = |i: usize| p[i];
    let std_norm = || -> (F1, F1) { (a1(norm_cdf), a1(norm_sf)) };
    let mut law = match cell.fam {
        Fam::StandardNormal => {
            let (c, s) = std_norm();
            let mut r = RefLaw::cont(c, s, f64::NEG_INFINITY, f64::INFINITY);
            r.extra_edges = vec![0.0];
            r
        }
        Fam::Normal => {
            let (c, s) = std_norm();
            let mut r = affine(c, s, g(0), g(1), f64::NEG_INFINITY, f64::INFINITY);
            r.extra_edges = vec![g(0)];
            r
        }
        Fam::LogNormal => {
            let (mu, sg) = (g(0), g(1));
            let sa = sg.abs();
            let mut r = RefLaw::cont(
                a1(move |x| if x <= 0.0 { 0.0 } else { norm_cdf((x.ln() - mu) / sa) }),
                a1(move |x| if x <= 0.0 { 1.0 } else { norm_sf((x.ln() - mu) / sa) }),
                0.0,
                f64::INFINITY,
            );
            r.extra_edges = vec![mu.exp()];
            r
        }
        Fam::Exp1 => RefLaw::cont(
            a1(|x| if x <= 0.0 { 0.0 } else { -(-x).exp_m1() }),
            a1(|x| if x <= 0.0 { 1.0 } else { (-x).exp() }),
            0.0,
            f64::INFINITY,
        ),
        Fam::Exp => {
            let l = g(0);
            RefLaw::cont(
                a1(move |x| if x <= 0.0 { 0.0 } else { -(-l * x).exp_m1() }),
                a1(move |x| if x <= 0.0 { 1.0 } else { (-l * x).exp() }),
                0.0,
                f64::INFINITY,
            )
        }
        Fam::Gamma => {
            let (k, th) = (g(0), g(1));
            RefLaw::cont(
                a1(move |x| gamma_pq(k, x / th).0),
                a1(move |x| gamma_pq(k, x / th).1),
                0.0,
                f64::INFINITY,
            )
        }
        Fam::ChiSquared => {
            let k = g(0);
            RefLaw::cont(
                a1(move |x| gamma_pq(k / 2.0, x / 2.0).0),
                a1(move |x| gamma_pq(k / 2.0, x / 2.0).1),
                0.0,
                f64::INFINITY,
            )
        }
        Fam::StudentT => {
            let nu = g(0);
            let tail = move |t: f64| -> f64 {
                // P(T > |t|) = 0.5 I_{nu/(nu+t^2)}(nu/2, 1/2)
                let t2 = t * t;
                let x = nu / (nu + t2);
                let y = t2 / (nu + t2);
                0.5 * ibeta(nu / 2.0, 0.5, x, y).0
            };
            let mut r = RefLaw::cont(
                a1(move |t| if t <= 0.0 { tail(t) } else { 1.0 - tail(t) }),
                a1(move |t| if t >= 0.0 { tail(t) } else { 1.0 - tail(t) }),
                f64::NEG_INFINITY,
                f64::INFINITY,
            );
            r.extra_edges = vec![0.0];
            r
        }
        Fam::FisherF => {
            let (m, n) = (g(0), g(1));
            let f = move |x: f64| -> (f64, f64) {
                if x <= 0.0 {
                    return (0.0, 1.0);
                }
                if x.is_infinite() {
                    return (1.0, 0.0);
                }
                let d = m * x + n;
                ibeta(m / 2.0, n / 2.0, m * x / d, n / d)
            };
            RefLaw::cont(a1(move |x| f(x).0), a1(move |x| f(x).1), 0.0, f64::INFINITY)
        }
        Fam::Beta => {
            let (a, b) = (g(0), g(1));
            RefLaw::cont(
                a1(move |x| if x <= 0.0 { 0.0 } else if x >= 1.0 { 1.0 } else { ibeta(a, b, x, 1.0 - x).0 }),
                a1(move |x| if x <= 0.0 { 1.0 } else if x >= 1.0 { 0.0 } else { ibeta(a, b, x, 1.0 - x).1 }),
                0.0,
                1.0,
            )
        }
        Fam::Pert => {
            let (min, max, mode, shape) = (g(0), g(1), g(2), g(3));
            let range = max - min;
            let v = 1.0 + shape * (mode - min) / range;
            let w = 1.0 + shape * (max - mode) / range;
            let f = move |x: f64| -> (f64, f64) {
                if x <= min {
                    return (0.0, 1.0);
                }
                if x >= max {
                    return (1.0, 0.0);
                }
                ibeta(v, w, (x - min) / range, (max - x) / range)
            };
            let mut r = RefLaw::cont(a1(move |x| f(x).0), a1(move |x| f(x).1), min, max);
            r.loc = min.abs().max(max.abs());
            r.extra_edges = vec![mode];
            r
        }
        Fam::Triangular => {
            let (min, max, mode) = (g(0), g(1), g(2));
            if min == max {
                let mut r = RefLaw::cont(
                    a1(move |x| if x >= min { 1.0 } else { 0.0 }),
                    a1(move |x| if x >= min { 0.0 } else { 1.0 }),
                    min,
                    max,
                );
                r.loc = min.abs();
                return Some(r);
            }
            let range = max - min;
            let f = move |x: f64| -> (f64, f64) {
                if x <= min {
                    (0.0, 1.0)
                } else if x >= max {
                    (1.0, 0.0)
                } else if x <= mode {
                    let c = (x - min) * (x - min) / (range * (mode - min));
                    (c, 1.0 - c)
                } else {
                    let s = (max - x) * (max - x) / (range * (max - mode));
                    (1.0 - s, s)
                }
            };
            let mut r = RefLaw::cont(a1(move |x| f(x).0), a1(move |x| f(x).1), min, max);
            r.loc = min.abs().max(max.abs());
            r.extra_edges = vec![mode];
            r
        }
        Fam::Cauchy => {
            let (x0, ga) = (g(0), g(1));
            let mut r = RefLaw::cont(
                a1(move |x| {
                    let z = (x - x0) / ga;
                    if z < 0.0 {
                        (-1.0 / z).atan() / PI
                    } else {
                        0.5 + z.atan() / PI
                    }
                }),
                a1(move |x| {
                    let z = (x - x0) / ga;
                    if z > 0.0 {
                        (1.0 / z).atan() / PI
                    } else {
                        0.5 - z.atan() / PI
                    }
                }),
                f64::NEG_INFINITY,
                f64::INFINITY,
            );
            r.loc = x0;
            r.extra_edges = vec![x0];
            r
        }
        Fam::Pareto => {
            let (xm, al) = (g(0), g(1));
            RefLaw::cont(
                a1(move |x| if x <= xm { 0.0 } else { -(-al * (x / xm).ln()).exp_m1() }),
                a1(move |x| if x <= xm { 1.0 } else { (-al * (x / xm).ln()).exp() }),
                xm,
                f64::INFINITY,
            )
        }
        Fam::Weibull => {
            let (l, k) = (g(0), g(1));
            RefLaw::cont(
                a1(move |x| if x <= 0.0 { 0.0 } else { -(-(x / l).powf(k)).exp_m1() }),
                a1(move |x| if x <= 0.0 { 1.0 } else { (-(x / l).powf(k)).exp() }),
                0.0,
                f64::INFINITY,
            )
        }
        Fam::Gumbel => {
            let (mu, b) = (g(0), g(1));
            let mut r = RefLaw::cont(
                a1(move |x| (-(-(x - mu) / b).exp()).exp()),
                a1(move |x| -(-(-(x - mu) / b).exp()).exp_m1()),
                f64::NEG_INFINITY,
                f64::INFINITY,
            );
            r.loc = mu;
            r
        }
        Fam::Frechet => {
            let (mu, sg, al) = (g(0), g(1), g(2));
            let mut r = RefLaw::cont(
                a1(move |x| if x <= mu { 0.0 } else { (-((x - mu) / sg).powf(-al)).exp() }),
                a1(move |x| if x <= mu { 1.0 } else { -(-((x - mu) / sg).powf(-al)).exp_m1() }),
                mu,
                f64::INFINITY,
            );
            r.loc = mu;
            r
        }
        Fam::SkewNormal => {
            let (xi, om, al) = (g(0), g(1), g(2));
            let mut r = RefLaw::cont(
                a1(move |x| {
                    let z = (x - xi) / om;
                    (norm_cdf(z) - 2.0 * owens_t(z, al)).clamp(0.0, 1.0)
                }),
                a1(move |x| {
                    let z = (x - xi) / om;
                    // 1 - Φ(z) + 2T(z,a) = Φ(-z) + 2 T(z,a)
                    (norm_sf(z) + 2.0 * owens_t(z, al)).clamp(0.0, 1.0)
                }),
                f64::NEG_INFINITY,
                f64::INFINITY,
            );
            r.loc = xi;
            r.extra_edges = vec![xi];
            // absolute accuracy of the Owen's T quadrature
            r.rho_abs_extra = 1e-13;
            r
        }
        Fam::InverseGaussian => {
            let (mu, l) = (g(0), g(1));
            RefLaw::cont(
                a1(move |x| {
                    if x <= 0.0 {
                        return 0.0;
                    }
                    let r = (l / x).sqrt();
                    let a = r * (x / mu - 1.0);
                    let b = r * (x / mu + 1.0);
                    (norm_cdf(a) + (2.0 * l / mu + ln_norm_cdf(-b)).exp()).min(1.0)
                }),
                a1(move |x| {
                    if x <= 0.0 {
                        return 1.0;
                    }
                    let r = (l / x).sqrt();
                    let a = r * (x / mu - 1.0);
                    let b = r * (x / mu + 1.0);
                    (norm_sf(a) - (2.0 * l / mu + ln_norm_cdf(-b)).exp()).max(0.0)
                }),
                0.0,
                f64::INFINITY,
            )
        }
        Fam::Nig => nig_law(g(0), g(1)),
        Fam::NormalMeanCv => {
            // documented: mean mu, cv = |sigma/mu|
            let (c, s) = std_norm();
            let mut r = affine(c, s, g(0), (g(1) * g(0)).abs(), f64::NEG_INFINITY, f64::INFINITY);
            r.extra_edges = vec![g(0)];
            r
        }
        Fam::LogNormalMeanCv => {
            // documented: linear-space mean m and cv: sigma^2 = ln(1+cv^2), mu = ln m - sigma^2/2
            let (m, cv) = (g(0), g(1));
            let s2 = (cv * cv).ln_1p();
            let (mu, sa) = (m.ln() - 0.5 * s2, s2.sqrt());
            if sa == 0.0 {
                let mut r = RefLaw::cont(a1(move |x| if x >= m { 1.0 } else { 0.0 }), a1(move |x| if x >= m { 0.0 } else { 1.0 }), m, m);
                r.loc = m;
                return Some(r);
            }
            let mut r = RefLaw::cont(
                a1(move |x| if x <= 0.0 { 0.0 } else { norm_cdf((x.ln() - mu) / sa) }),
                a1(move |x| if x <= 0.0 { 1.0 } else { norm_sf((x.ln() - mu) / sa) }),
                0.0,
                f64::INFINITY,
            );
            r.extra_edges = vec![m];
            r
        }
        Fam::PertMean => {
            // documented: mean = (min + shape*mode + max)/(shape + 2)
            let (min, max, mean, shape) = (g(0), g(1), g(2), g(3));
            let mode = ((shape + 2.0) * mean - min - max) / shape;
            let inner = Cell { fam: Fam::Pert, ft: cell.ft, p: vec![min, max, mode, shape], ip: vec![] };
            return reflaw(&inner).map(|mut l| {
                l.kappa = kappa(cell);
                l
            });
        }
        Fam::Binomial => {
            if crate::families::binomial_uses_complement(cell) {
                let mut l = binomial_law(cell.ip[0], 1.0 - g(0));
                l.note = format!("law of n - X (outputs near n = {} are not representable as f64); {}", cell.ip[0], l.note);
                l
            } else {
                binomial_law(cell.ip[0], g(0))
            }
        }
        Fam::Poisson => poisson_law(g(0)),
        Fam::Geometric => geometric_law(g(0)),
        Fam::StandardGeometric => geometric_law(0.5),
        Fam::Hypergeometric => hypergeometric_law(cell.ip[0], cell.ip[1], cell.ip[2]),
        Fam::Zipf => zipf_law(g(0), g(1)),
        Fam::Zeta => {
            let mut r = zeta_law(g(0));
            // documented: when the proposal u^(-1/(s-1)) overflows the float type the sampler returns +inf
            // without an acceptance test; that event has probability MAX^-(s-1)
            r.rho_abs_extra += cell.ft.max().powf(-(g(0) - 1.0));
            r
        }
        _ => return None,
    };
    law.kappa = kappa(cell);
    let _ = Ft::F64;
    Some(law)
}

/// Quantile of a continuous law by bisection: smallest x (to ~1e-15 relative) with cdf(x) >= p,
/// searching on whichever of cdf/sf is smaller.
pub fn quantile(law: &RefLaw, p: f64) -> Option<f64> {
    let target_low = p <= 0.5;
    let q = 1.0 - p;
    let ok = |x: f64| -> bool {
        if target_low {
            (law.cdf)(x) >= p
        } else {
            (law.sf)(x) <= q
        }
    };
    // bracket
    let mut lo = if law.lo.is_finite() { law.lo } else { -1.0 };
    let mut hi = if law.hi.is_finite() { law.hi } else { 1.0 };
    if !law.lo.is_finite() {
        let mut step = 1.0;
        while ok(lo) {
            lo -= step;
            step *= 2.0;
            if step > 1e300 {
                return None;
            }
        }
    }
    if !law.hi.is_finite() {
        let mut step = 1.0;
        if hi <= lo {
            hi = lo + 1.0;
        }
        while !ok(hi) {
            hi += step;
            step *= 2.0;
            if step > 1e300 {
                return None;
            }
        }
    }
    if ok(lo) {
        return Some(lo);
    }
    for _ in 0..200 {
        let mid = if lo > 0.0 && hi / lo > 4.0 {
            (lo * hi).sqrt()
        } else if hi < 0.0 && lo / hi > 4.0 {
            -((lo * hi).sqrt())
        } else {
            0.5 * (lo + hi)
        };
        if mid <= lo || mid >= hi {
            break;
        }
        if ok(mid) {
            hi = mid;
        } else {
            lo = mid;
        }
    }
    Some(hi)
}

/// Integer quantile for discrete laws: smallest integer k with cdf(k) >= p.
pub fn quantile_int(law: &RefLaw, p: f64) -> Option<f64> {
    let target_low = p <= 0.5;
    let q = 1.0 - p;
    let ok = |x: f64| -> bool {
        if target_low {
            (law.cdf)(x) >= p
        } else {
            (law.sf)(x) <= q
        }
    };
    let mut lo = law.lo.max(0.0) - 1.0;
    let mut hi = if law.hi.is_finite() { law.hi } else { lo + 2.0 };
    if !law.hi.is_finite() {
        let mut step = 1.0;
        while !ok(hi) {
            hi += step;
            step *= 2.0;
            if step > 1e300 {
                return None;
            }
        }
    } else if !ok(hi) {
        return Some(hi);
    }
    // invariant: !ok(lo) (lo = support_lo - 1), ok(hi)
    while hi - lo > 1.0 {
        let mid = (0.5 * (lo + hi)).floor();
        if mid <= lo || mid >= hi {
            break;
        }
        if ok(mid) {
            hi = mid;
        } else {
            lo = mid;
        }
    }
    Some(hi)
}
