//! Evidence, violations, known findings (DESIGN §3.7, §3.8).
use serde::{Deserialize, Serialize};
use serde_json::{json, Value};
use std::collections::{BTreeMap, HashSet};
use std::sync::atomic::{AtomicU64, Ordering};
use std::sync::Mutex;
use std::time::Instant;

/// root of the verification tree (evidence/, replays/, known_findings.json, golden/): $VERIF_DIR or /verif
pub fn verif_dir() -> String {
    std::env::var("VERIF_DIR").unwrap_or_else(|_| "/verif".to_string())
}

#[derive(Clone, Debug, Serialize, Deserialize)]
pub struct Violation {
    pub property: String,
    pub family: String,
    pub float: String,
    /// what went wrong, e.g. "above_support", "panic", "nan", "law:T1"
    pub symptom: String,
    /// what it takes, e.g. "u0=max", "cell", "history"
    pub trigger: String,
    /// human-readable one-liner
    pub what: String,
    /// the (shrunk) case: enough to re-execute it with `verif replay`
    pub case: Value,
}

impl Violation {
    pub fn root_key(&self) -> String {
        format!("{}|{}|{}|{}", self.property, self.family, self.symptom, self.trigger)
    }
}

#[derive(Clone, Debug, Deserialize)]
pub struct Finding {
    pub property: String,
    pub id: String,
    pub status: String,
    #[serde(default)]
    pub family: String,
    #[serde(default)]
    pub float: String,
    #[serde(default)]
    pub symptom: String,
    #[serde(default)]
    pub trigger: String,
    #[serde(default)]
    pub what: String,
    #[serde(default)]
    pub commit: String,
    /// optional named parameter-region predicate (see `region_pred`): the finding matches only cases whose
    /// cell lies in the region, and random generators exclude the region by construction (counted)
    #[serde(default)]
    pub region: Option<String>,
}

/// Named region predicates of known findings (code, committed; referenced by name from known_findings.json).
pub fn region_pred(name: &str, cell: &crate::families::Cell) -> bool {
    use crate::families::Ft;
    let p = &cell.p;
    match name {
        // InverseGaussian: shape/mean < 0.1
        // Hypergeometric: population so large that ln N! differences carry no information in f64
        "hypergeometric_N_ge_2^48" => cell.ip.first().map(|&n| n >= (1u64 << 48)).unwrap_or(false),
        "ig_shape_over_mean_lt_0.1" => p.len() >= 2 && p[1] / p[0] < 0.1,
        // the same cancellation seen by the atom test T5 (quantised outputs): visible up to shape/mean ~0.13
        "ig_shape_over_mean_lt_0.2" => p.len() >= 2 && p[1] / p[0] < 0.2,
        // Zipf: s close to but different from 1 (f64: |s-1| < 1e-6, f32: |s-1| < 2e-3)
        "zipf_s_near_1_not_1" => {
            p.len() >= 2 && p[1] != 1.0 && (p[1] - 1.0).abs() < if cell.ft == Ft::F32 { 2e-3 } else { 1e-6 }
        }
        // Binomial: n >= 2^53 and the standard deviation is below 4096 ulp(n): n-m and n-y round to the same f64
        "binomial_huge_n_sd_below_ulp" => {
            if cell.ip.is_empty() || p.is_empty() {
                return false;
            }
            let n = cell.ip[0] as f64;
            let q = p[0].min(1.0 - p[0]);
            cell.ip[0] >= (1u64 << 53) && q > 0.0 && (n * q).sqrt() < 4096.0 * n * 2f64.powi(-52)
        }
        "dirichlet_all_alpha_le_0.1" => !p.is_empty() && p.iter().all(|&a| a <= if cell.ft == Ft::F32 { 0.1f32 as f64 } else { 0.1 }),
        "poisson_lambda_ge_4e18" => !p.is_empty() && p[0] >= 4e18,
        // Dirichlet<f32> on the gamma path (some alpha > 0.1) with every alpha below 0.2
        "dirichlet_f32_gamma_path_small_alpha" => {
            cell.ft == Ft::F32 && !p.is_empty() && p.iter().any(|&a| a > 0.1f32 as f64) && p.iter().all(|&a| a < 0.2)
        }
        _ => false,
    }
}

fn pat(p: &str, s: &str) -> bool {
    if p.is_empty() || p == "*" {
        return true;
    }
    p.split('|').any(|alt| {
        if let Some(pre) = alt.strip_suffix('*') {
            s.starts_with(pre)
        } else {
            alt == s
        }
    })
}

impl Finding {
    pub fn matches(&self, v: &Violation) -> bool {
        self.status == "known"
            && self.property == v.property
            && pat(&self.family, &v.family)
            && pat(&self.float, &v.float)
            && pat(&self.symptom, &v.symptom)
            && pat(&self.trigger, &v.trigger)
            && match &self.region {
                None => true,
                Some(r) => match serde_json::from_value::<crate::families::Cell>(v.case.get("cell").cloned().unwrap_or(Value::Null)) {
                    Ok(c) => region_pred(r, &c),
                    Err(_) => false,
                },
            }
    }
}

pub fn load_findings() -> Vec<Finding> {
    let path = format!("{}/", verif_dir()).as_str().to_owned() + &format!("known_findings.json");
    match std::fs::read_to_string(&path) {
        Ok(t) => {
            let v: Value = serde_json::from_str(&t).unwrap_or(json!({}));
            v.get("findings")
                .and_then(|f| serde_json::from_value::<Vec<Finding>>(f.clone()).ok())
                .unwrap_or_default()
        }
        Err(_) => vec![],
    }
}

pub struct Ctx {
    pub property: String,
    pub tier: String,
    pub seed: u64,
    pub t0: Instant,
    pub evals: AtomicU64,
    nontrivial: Mutex<HashSet<u64>>,
    /// non-trivial cases that are distinct by construction (enumerations), counted without storing keys
    nontrivial_counted: AtomicU64,
    samples: Mutex<Vec<Value>>,
    sample_cap: usize,
    classes: Mutex<BTreeMap<String, u64>>,
    violations: Mutex<Vec<Violation>>,
    pub extra: Mutex<BTreeMap<String, Value>>,
    pub findings: Vec<Finding>,
    pub strict: bool,
    pub infra_errors: Mutex<Vec<String>>,
}

impl Ctx {
    pub fn new(property: &str, tier: &str, seed: u64) -> Ctx {
        Ctx {
            property: property.to_string(),
            tier: tier.to_string(),
            seed,
            t0: Instant::now(),
            evals: AtomicU64::new(0),
            nontrivial: Mutex::new(HashSet::new()),
            nontrivial_counted: AtomicU64::new(0),
            samples: Mutex::new(vec![]),
            sample_cap: 12,
            classes: Mutex::new(BTreeMap::new()),
            violations: Mutex::new(vec![]),
            extra: Mutex::new(BTreeMap::new()),
            findings: load_findings(),
            strict: false,
            infra_errors: Mutex::new(vec![]),
        }
    }
    pub fn thorough(&self) -> bool {
        self.tier == "thorough"
    }
    pub fn eval(&self, n: u64) {
        self.evals.fetch_add(n, Ordering::Relaxed);
    }
    pub fn nontrivial(&self, key: u64) {
        self.nontrivial.lock().unwrap().insert(key);
    }
    pub fn nontrivial_count(&self) -> usize {
        self.nontrivial.lock().unwrap().len() + self.nontrivial_counted.load(Ordering::Relaxed) as usize
    }
    /// count `n` non-trivial cases that are pairwise distinct by construction of the enumeration
    pub fn nontrivial_add(&self, n: u64) {
        self.nontrivial_counted.fetch_add(n, Ordering::Relaxed);
    }
    pub fn class(&self, name: &str, n: u64) {
        *self.classes.lock().unwrap().entry(name.to_string()).or_insert(0) += n;
    }
    /// keep the first few and a pseudo-random selection of later samples
    pub fn sample(&self, key: u64, v: impl FnOnce() -> Value) {
        let mut s = self.samples.lock().unwrap();
        if s.len() < 4 || (s.len() < self.sample_cap && crate::rng::mix(key ^ self.seed) % 97 == 0) {
            s.push(v());
        }
    }
    pub fn set_extra(&self, k: &str, v: Value) {
        self.extra.lock().unwrap().insert(k.to_string(), v);
    }
    pub fn violation(&self, v: Violation) {
        let mut vs = self.violations.lock().unwrap();
        if vs.len() < 100_000 {
            vs.push(v);
        }
    }
    pub fn infra(&self, msg: String) {
        self.infra_errors.lock().unwrap().push(msg);
    }
    /// is this (family, float, symptom, trigger) region covered by a known finding? (used to
    /// exclude the region of a known finding from random generation, counted by the caller)
    pub fn is_known(&self, family: &str, float: &str, symptom: &str, trigger: &str) -> bool {
        let v = Violation {
            property: self.property.clone(),
            family: family.into(),
            float: float.into(),
            symptom: symptom.into(),
            trigger: trigger.into(),
            what: String::new(),
            case: Value::Null,
        };
        self.findings.iter().any(|f| f.matches(&v))
    }

    /// does the cell lie in the parameter region of a known finding of this property?
    pub fn in_known_region(&self, cell: &crate::families::Cell) -> bool {
        let fl = if cell.fam.int_only() { "-" } else if cell.ft == crate::families::Ft::F32 { "f32" } else { "f64" };
        self.findings.iter().any(|f| {
            f.status == "known" && f.property == self.property && pat(&f.family, &cell.fam.name()) && pat(&f.float, fl)
                && match &f.region {
                    Some(r) => region_pred(r, cell),
                    None => false,
                }
        })
    }

    /// verdict of a replay: VIOLATION line pointing at the replayed file (no evidence written)
    pub fn finish_replay(&self, path: &str) -> i32 {
        let vs = self.violations.lock().unwrap().clone();
        let mut code = 0;
        for v in &vs {
            if !self.strict {
                if let Some(f) = self.findings.iter().find(|f| f.matches(v)) {
                    println!("KNOWN-FINDING: property={} {} [{}]", self.property, f.what, f.id);
                    continue;
                }
            }
            println!("VIOLATION property={} replay={}", self.property, path);
            println!("  detail: {}", v.what);
            code = 1;
        }
        if vs.is_empty() {
            println!("replay of {path}: property held");
        }
        code
    }

    /// Print KNOWN-FINDING / VIOLATION lines, write replay files and evidence; return the exit code.
    pub fn finish(&self, rule: &str, assumptions: &[&str], exhaustive: bool) -> i32 {
        let vs = self.violations.lock().unwrap().clone();
        let mut known: BTreeMap<String, (String, u64)> = BTreeMap::new();
        let mut groups: BTreeMap<String, Vec<Violation>> = BTreeMap::new();
        for v in vs {
            if !self.strict {
                if let Some(f) = self.findings.iter().find(|f| f.matches(&v)) {
                    let e = known.entry(f.id.clone()).or_insert((f.what.clone(), 0));
                    e.1 += 1;
                    continue;
                }
            }
            groups.entry(v.root_key()).or_default().push(v);
        }
        for (id, (what, n)) in &known {
            println!("KNOWN-FINDING: property={} {} [{}; matched {} case(s) this run]", self.property, what, id, n);
        }
        let mut nviol = 0;
        let _ = std::fs::create_dir_all(format!("{}/", verif_dir()).as_str().to_owned() + &format!("replays"));
        for (key, g) in &groups {
            nviol += 1;
            // the smallest case (by serialized length) is the representative
            let rep = g.iter().min_by_key(|v| v.case.to_string().len()).unwrap();
            let h = crate::rng::hstr(key) & 0xffff_ffff;
            let path = format!("{}/", verif_dir()).as_str().to_owned() + &format!("replays/{}-{:08x}.json", self.property, h);
            let body = json!({
                "property": rep.property, "family": rep.family, "float": rep.float,
                "symptom": rep.symptom, "trigger": rep.trigger, "what": rep.what,
                "case": rep.case, "seed": self.seed, "tier": self.tier,
                "prng": crate::rng::Prng::from_env().name(), "occurrences_this_run": g.len(),
            });
            let _ = std::fs::write(&path, serde_json::to_string_pretty(&body).unwrap());
            println!("VIOLATION property={} replay={}", self.property, path);
            println!("  detail: {} [{} {} symptom={} trigger={}; {} occurrence(s)]", rep.what, rep.family, rep.float, rep.symptom, rep.trigger, g.len());
        }
        let infra = self.infra_errors.lock().unwrap().clone();
        for e in &infra {
            println!("INFRA: {e}");
        }
        // evidence
        let mut cov = serde_json::Map::new();
        cov.insert("evaluations".into(), json!(self.evals.load(Ordering::Relaxed)));
        cov.insert("distinct_nontrivial".into(), json!(self.nontrivial_count()));
        cov.insert("rule".into(), json!(rule));
        cov.insert("samples".into(), json!(*self.samples.lock().unwrap()));
        cov.insert("exhaustive".into(), json!(exhaustive));
        cov.insert("classes".into(), json!(*self.classes.lock().unwrap()));
        cov.insert(
            "known_findings_matched".into(),
            json!(known.iter().map(|(k, v)| json!({"id": k, "cases": v.1})).collect::<Vec<_>>()),
        );
        for (k, v) in self.extra.lock().unwrap().iter() {
            cov.insert(k.clone(), v.clone());
        }
        // the checked-profile pass (debug assertions + overflow checks on) runs first and leaves its summary
        if std::env::var("VERIF_PROFILE").map(|v| v != "checked").unwrap_or(true) {
            let cp = format!("{}/", verif_dir()).as_str().to_owned() + &format!("evidence/.{}.checked.json", self.property);
            if let Ok(t) = std::fs::read_to_string(&cp) {
                if let Ok(v) = serde_json::from_str::<Value>(&t) {
                    cov.insert("checked_profile_pass".into(), json!({
                        "evaluations": v["coverage"]["evaluations"], "distinct_nontrivial": v["coverage"]["distinct_nontrivial"],
                        "violations": v["violations"], "wall_s": v["wall_s"]}));
                }
                let _ = std::fs::remove_file(&cp);
            }
        }
        let ev = json!({
            "property_id": self.property,
            "tier": self.tier,
            "seed": self.seed,
            "level": "exploration",
            "coverage": Value::Object(cov),
            "assumptions": assumptions,
            "wall_s": self.t0.elapsed().as_secs_f64(),
            "violations": nviol,
            "prng": crate::rng::Prng::from_env().name(),
            "infra_errors": infra,
        });
        let _ = std::fs::create_dir_all(format!("{}/", verif_dir()).as_str().to_owned() + &format!("evidence"));
        let checked = std::env::var("VERIF_PROFILE").map(|v| v == "checked").unwrap_or(false);
        let epath = if checked {
            format!("{}/", verif_dir()).as_str().to_owned() + &format!("evidence/.{}.checked.json", self.property)
        } else {
            format!("{}/", verif_dir()).as_str().to_owned() + &format!("evidence/{}.json", self.property)
        };
        if let Err(e) = std::fs::write(&epath, serde_json::to_string_pretty(&ev).unwrap()) {
            println!("INFRA: cannot write {epath}: {e}");
            return 2;
        }
        println!(
            "{} {}: evaluations={} distinct_nontrivial={} violations={} known={} wall={:.1}s",
            self.property,
            self.tier,
            self.evals.load(Ordering::Relaxed),
            self.nontrivial_count(),
            nviol,
            known.len(),
            self.t0.elapsed().as_secs_f64()
        );
        if nviol > 0 {
            1
        } else if !infra.is_empty() {
            2
        } else {
            0
        }
    }
}

/// Run a closure catching panics; returns Err(message) on panic. WordBudget payloads are mapped to "WORD_BUDGET".
pub fn catch<T>(f: impl FnOnce() -> T) -> Result<T, String> {
    IN_CATCH.with(|c| c.set(c.get() + 1));
    let r = std::panic::catch_unwind(std::panic::AssertUnwindSafe(f));
    IN_CATCH.with(|c| c.set(c.get().saturating_sub(1)));
    match r {
        Ok(v) => Ok(v),
        Err(e) => {
            if let Some(b) = e.downcast_ref::<crate::rng::WordBudget>() {
                Err(format!("WORD_BUDGET {}", b.0))
            } else if let Some(s) = e.downcast_ref::<&str>() {
                Err(s.to_string())
            } else if let Some(s) = e.downcast_ref::<String>() {
                Err(s.clone())
            } else {
                Err("panic (non-string payload)".into())
            }
        }
    }
}

/// Silence the default panic printer (we catch and classify panics ourselves).
pub fn quiet_panics() {
    if std::env::var("VERIF_SHOW_PANICS").is_ok() {
        return;
    }
    // panics raised inside `catch` are classified by the caller; anything else is an infrastructure failure and is printed
    let main_id = std::thread::current().id();
    let _ = main_id;
    std::panic::set_hook(Box::new(|info| {
        let in_catch = IN_CATCH.with(|c| c.get());
        if in_catch == 0 {
            eprintln!("INFRA: harness panic outside a guarded call: {info}");
        }
    }));
}

thread_local! {
    pub static IN_CATCH: std::cell::Cell<u32> = const { std::cell::Cell::new(0) };
}

/// Run `f` on its own thread and wait at most `secs` seconds. On timeout the thread is abandoned (it may be
/// stuck inside the code under test) and None is returned; `main` leaves through `process::exit`, so abandoned
/// threads never keep the process alive.
pub fn deadline<T: Send + 'static>(secs: u64, f: impl FnOnce() -> T + Send + 'static) -> Option<T> {
    let (tx, rx) = std::sync::mpsc::channel();
    std::thread::spawn(move || {
        let r = f();
        let _ = tx.send(r);
    });
    rx.recv_timeout(std::time::Duration::from_secs(secs)).ok()
}
