//! Support predicates per family, transcribed from the C03 statement / doc comments.
use crate::families::{Cell, Fam, Ft, Val, ALIAS_INT, TREE_INT};

fn ulp(ft: Ft, x: f64) -> f64 {
    let a = x.abs().max(ft.min_pos());
    (ft.next_up(a) - a).abs()
}

/// Returns None if the value is inside the documented support, else (symptom, message).
pub fn check_val(cell: &Cell, v: &Val) -> Option<(String, String)> {
    let p = &cell.p;
    let bad = |sym: &str, msg: String| Some((sym.to_string(), format!("{}: {} (value {})", cell.key(), msg, v.show())));
    // vector outputs
    match cell.fam {
        Fam::UnitCircle | Fam::UnitDisc | Fam::UnitSphere | Fam::UnitBall => {
            let xs = v.vec();
            if xs.iter().any(|x| x.is_nan()) {
                return bad("nan", "NaN coordinate".into());
            }
            let eps = cell.ft.eps();
            let norm = xs.iter().map(|x| x * x).sum::<f64>().sqrt();
            return match cell.fam {
                Fam::UnitCircle | Fam::UnitSphere => {
                    if (norm - 1.0).abs() > 8.0 * eps {
                        bad("norm", format!("norm {} differs from 1 by more than 8 eps", norm))
                    } else {
                        None
                    }
                }
                _ => {
                    if norm > 1.0 + 4.0 * eps {
                        bad("norm", format!("norm {} exceeds 1 + 4 eps", norm))
                    } else {
                        None
                    }
                }
            };
        }
        Fam::Dirichlet => {
            let xs = v.vec();
            if xs.len() != p.len() {
                return bad("len", format!("length {} != {}", xs.len(), p.len()));
            }
            if xs.iter().any(|x| x.is_nan()) {
                return bad("nan", "NaN component".into());
            }
            if xs.iter().any(|&x| !(0.0..=1.0).contains(&x)) {
                return bad("out_of_support", "component outside [0,1]".into());
            }
            let s: f64 = xs.iter().sum();
            if (s - 1.0).abs() > 4.0 * xs.len() as f64 * cell.ft.eps() {
                return bad("sum", format!("components sum to {}", s));
            }
            return None;
        }
        _ => {}
    }
    if ALIAS_INT.contains(&cell.fam) || TREE_INT.contains(&cell.fam) || matches!(cell.fam, Fam::AliasF | Fam::TreeF) {
        let i = v.as_u64().unwrap_or(u64::MAX);
        let is_int = cell.fam != Fam::AliasF && cell.fam != Fam::TreeF;
        let len = if is_int { cell.ip.len() } else { p.len() } as u64;
        if i >= len {
            return bad("index_out_of_range", format!("index {} >= len {}", i, len));
        }
        let zero = if is_int { cell.ip[i as usize] == 0 } else { p[i as usize] == 0.0 };
        if zero {
            return bad("zero_weight_index", format!("index {} has weight 0", i));
        }
        return None;
    }
    // integer-typed outputs
    if let Some(k) = v.as_u64() {
        return match cell.fam {
            Fam::Binomial => {
                if k > cell.ip[0] {
                    bad("above_support", format!("{} > n = {}", k, cell.ip[0]))
                } else {
                    None
                }
            }
            Fam::Hypergeometric => {
                let (nn, kk, n) = (cell.ip[0], cell.ip[1], cell.ip[2]);
                let lo = (n + kk).saturating_sub(nn);
                let hi = n.min(kk);
                if k < lo {
                    bad("below_support", format!("{} < max(0, n+K-N) = {}", k, lo))
                } else if k > hi {
                    bad("above_support", format!("{} > min(n,K) = {}", k, hi))
                } else {
                    None
                }
            }
            Fam::Geometric => {
                // u64::MAX is documented only for p == 0 or 1-p == 1
                if k == u64::MAX && !(1.0 - p[0] == 1.0) {
                    bad("above_support", "u64::MAX although 1-p != 1".into())
                } else {
                    None
                }
            }
            _ => None,
        };
    }
    let x = v.as_f64();
    if x.is_nan() {
        return bad("nan", "NaN".into());
    }
    let inf_ok = match cell.fam {
        Fam::Exp => p[0] == 0.0,
        Fam::Gamma => p[0].is_infinite() || p[1].is_infinite(),
        // documented: +inf when the proposal u^(-1/(s-1)) overflows the float type; with u in (0,1] on the
        // 2^-53 (f64) / 2^-24 (f32) grid that is possible only for (s-1) <= bits*ln2/ln(MAX)
        // Zipf with n = inf: documented (fix 2c..): infinity when the proposal overflows, same condition as Zeta
        Fam::Zipf if p[0].is_infinite() => {
            let (bits, lnmax) = if cell.ft == Ft::F32 { (24.0, (f32::MAX as f64).ln()) } else { (53.0, f64::MAX.ln()) };
            x > 0.0 && (p[1] - 1.0) <= bits * std::f64::consts::LN_2 / lnmax * 1.0001
        }
        Fam::Zeta => {
            let (bits, lnmax) = if cell.ft == Ft::F32 { (24.0, (f32::MAX as f64).ln()) } else { (53.0, f64::MAX.ln()) };
            x > 0.0 && (p[0] - 1.0) <= bits * std::f64::consts::LN_2 / lnmax * 1.0001
        }
        _ => false,
    };
    if x.is_infinite() && !inf_ok {
        return bad(if x > 0.0 { "pos_inf" } else { "neg_inf" }, "infinite value not named by the documentation".into());
    }
    let ft = cell.ft;
    match cell.fam {
        Fam::Exp1 | Fam::Exp | Fam::Gamma | Fam::ChiSquared | Fam::FisherF | Fam::LogNormal | Fam::Weibull | Fam::InverseGaussian => {
            if x < 0.0 {
                return bad("below_support", "negative value".into());
            }
        }
        Fam::Beta => {
            if !(0.0..=1.0).contains(&x) {
                return bad("out_of_support", "outside [0,1]".into());
            }
        }
        Fam::Pareto => {
            if x < p[0] {
                return bad("below_support", format!("below scale {}", p[0]));
            }
        }
        Fam::Frechet => {
            if x < p[0] {
                return bad("below_support", format!("below location {}", p[0]));
            }
        }
        Fam::Triangular | Fam::Pert => {
            let (mn, mx) = (p[0], p[1]);
            let tol = 4.0 * ulp(ft, mn.abs().max(mx.abs()));
            if x < mn - tol {
                return bad("below_support", format!("below min {} by more than 4 ulp", mn));
            }
            if x > mx + tol {
                return bad("above_support", format!("above max {} by more than 4 ulp", mx));
            }
        }
        Fam::Poisson | Fam::Zipf | Fam::Zeta => {
            if x.is_finite() && x.fract() != 0.0 {
                return bad("not_integer", "non-integer value".into());
            }
            if x < 0.0 {
                return bad("below_support", "negative".into());
            }
            if cell.fam != Fam::Poisson && x < 1.0 {
                return bad("below_support", "below 1".into());
            }
            if cell.fam == Fam::Zipf && x > p[0] {
                return bad("above_support", format!("{} > n = {}", x, p[0]));
            }
        }
        _ => {}
    }
    None
}
