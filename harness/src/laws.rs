//! C01 / C02: samplers follow their documented law (DESIGN §5).
use crate::envelope::{classes, grid, random_cell, shape_lattice};
use crate::families::{build, Cell, Fam, Ft, CONTINUOUS, CTOR_VARIANTS, DISCRETE};
use crate::refdist::reflaw;
use crate::report::{Ctx, Violation};
use crate::rng::{hseed, BaseRng};
use crate::stats::{check_law, LawJob, LawOutcome};
use rayon::prelude::*;
use serde_json::{json, Value};

pub struct LawPlan {
    pub cell: Cell,
    pub n: u64,
    pub origin: &'static str,
}

fn ft_name(c: &Cell) -> String {
    if c.fam.int_only() {
        "-".into()
    } else if c.ft == Ft::F32 {
        "f32".into()
    } else {
        "f64".into()
    }
}

/// Run one law cell; returns the outcome (None if the cell could not be built, which is itself reported).
pub fn run_cell(ctx: &Ctx, plan: &LawPlan, min_n: u64) -> Option<LawOutcome> {
    let cell = &plan.cell;
    let sampler = match build(cell) {
        Ok(s) => s,
        Err(e) if cell.fam == Fam::Hypergeometric && e.contains("PopulationTooLarge") => {
            // documented: "total_population_size is too large, causing floating point underflow" — E holds
            // only parameter sets the constructor accepts (C04 judges constructors)
            ctx.class("cells_rejected_by_constructor:PopulationTooLarge", 1);
            return None;
        }
        Err(e) => {
            ctx.violation(Violation {
                property: ctx.property.clone(),
                family: cell.fam.name(),
                float: ft_name(cell),
                symptom: "ctor_rejects_envelope_cell".into(),
                trigger: format!("cell:{}", cell.key()),
                what: format!("constructor rejected a parameter set inside E: {} -> {}", cell.key(), e),
                case: json!({"kind": "law", "cell": cell, "n": plan.n}),
            });
            return None;
        }
    };
    let law = match reflaw(cell) {
        Some(l) => l,
        None => {
            ctx.class(&format!("no_reference_law:{}", cell.fam.name()), 1);
            return None;
        }
    };
    let seed = hseed(&[ctx.seed, cell.hash64(), 0x1A3]);
    let out = check_law(&LawJob {
        cell,
        sampler: crate::stats::Src::Dyn(sampler.as_ref()),
        law: &law,
        n: plan.n,
        seed,
        min_n,
    });
    ctx.eval(1);
    ctx.class(&format!("draws:{}", cell.fam.name()), plan.n);
    for cl in classes(cell) {
        ctx.class(&format!("{}:{}", cl, ft_name(cell)), 1);
    }
    ctx.class(&format!("origin:{}", plan.origin), 1);
    ctx.class("atom_test_draws", out.atom_draws);
    if out.nontrivial {
        ctx.nontrivial(cell.hash64());
    } else {
        ctx.class("degenerate_cells", 1);
        let why = out.degenerate_reason.clone().unwrap_or_default();
        let why = if why.starts_with("slack") { "slack_too_loose" } else if why.starts_with("only") && why.contains("representable") { "few_representable_edges" } else if why.starts_with("edge") { "edge_without_samples_on_one_side" } else if why.starts_with("only") { "few_bins_with_expected_ge_1000" } else { "n_below_minimum" };
        ctx.class(&format!("degenerate:{}:{}:{}", cell.fam.name(), ft_name(cell), why), 1);
    }
    ctx.sample(cell.hash64(), || {
        json!({"cell": cell.key(), "n": plan.n, "edges": out.edges, "min": out.min_sample, "max": out.max_sample,
               "rho_rel": out.rho_rel, "rho_abs": out.rho_abs, "nontrivial": out.nontrivial,
               "first_stage_rejections": out.rejections_first.len(), "confirmed": out.confirmed.len()})
    });
    if !out.confirmed.is_empty() {
        // one violation per cell: the strongest confirmed statistic
        let r = out
            .confirmed
            .iter()
            .max_by(|a, b| a.stat.partial_cmp(&b.stat).unwrap_or(std::cmp::Ordering::Equal))
            .unwrap();
        ctx.violation(Violation {
            property: ctx.property.clone(),
            family: cell.fam.name(),
            float: ft_name(cell),
            symptom: format!("law:{}", r.kind),
            trigger: format!("cell:{}", cell.key()),
            what: format!(
                "{}: {} at x={:e}: observed {:.6e}, allowed [{:.6e}, {:.6e}] (n={}, confirmed on 4n; {} statistics confirmed)",
                cell.key(), r.kind, r.at, r.observed, r.allowed_lo, r.allowed_hi, plan.n, out.confirmed.len()
            ),
            case: json!({"kind": "law", "cell": cell, "n": plan.n, "seed": seed, "rejection": r}),
        });
    } else if !out.rejections_first.is_empty() {
        ctx.class("first_stage_rejections_not_confirmed", 1);
    }
    Some(out)
}

pub fn plans_c01(ctx: &Ctx) -> Vec<LawPlan> {
    let (n_grid, n_rand, k_rand) = if ctx.thorough() { (100_000_000, 10_000_000, 200) } else { (4_000_000, 4_000_000, 48) };
    let mut plans = vec![];
    for &fam in CONTINUOUS.iter().chain(CTOR_VARIANTS.iter()) {
        for ft in [Ft::F32, Ft::F64] {
            for cell in grid(fam, ft) {
                plans.push(LawPlan { cell, n: n_grid, origin: "grid" });
            }
            if matches!(fam, Fam::StandardNormal | Fam::Exp1) {
                continue;
            }
            for cell in shape_lattice(fam, ft, if ctx.thorough() { 48 } else { 12 }) {
                plans.push(LawPlan { cell, n: if ctx.thorough() { n_rand } else { 2_000_000 }, origin: "shape_lattice" });
            }
            let mut r = BaseRng::from_env(hseed(&[ctx.seed, fam as u64, ft as u64, 0xC01]));
            for _ in 0..k_rand {
                plans.push(LawPlan { cell: random_cell(fam, ft, &mut r), n: n_rand, origin: "random" });
            }
        }
    }
    plans
}

pub fn plans_c02(ctx: &Ctx) -> Vec<LawPlan> {
    let (n_small, n_grid, n_rand, k_rand) = if ctx.thorough() { (4_000_000, 100_000_000, 10_000_000, 300) } else { (200_000, 4_000_000, 4_000_000, 40) };
    let mut plans = vec![];
    // exhaustive small sets
    let ps = [0.0, 2f64.powi(-60), 1e-9, 0.01, 0.05, 0.1, 0.25, 1.0 / 3.0, 0.4, 0.49, 0.5, 0.51, 0.6, 2.0 / 3.0, 0.75, 0.9, 0.99, 1.0 - 1e-9, 1.0];
    for n in 0..=30u64 {
        for &p in &ps {
            // BTPE needs n*min(p,1-p) >= 10: those cells carry the method's squeeze constants and get the grid sample size
            let btpe = (n as f64) * p.min(1.0 - p) >= 10.0;
            // the small BTPE cells are the only ones whose end points 0 / n carry visible mass (down to ~5e-7 at
            // n = 20, 21): 6.4e7 draws make an unreachable end point a certain rejection already at the quick tier
            plans.push(LawPlan { cell: Cell::newi(Fam::Binomial, &[n], &[p]), n: if btpe { n_grid.max(64_000_000) } else { n_small.max(1_000_000) }, origin: "exhaustive_small" });
        }
    }
    for nn in 0..=40u64 {
        for kk in 0..=nn {
            for n in 0..=nn {
                plans.push(LawPlan { cell: Cell::newi(Fam::Hypergeometric, &[nn, kk, n], &[]), n: n_small, origin: "exhaustive_small" });
            }
        }
    }
    // extension below E's 1e-9 for Geometric (power-of-two split with k up to 53; the law is closed-form)
    for p in [3e-10, 1e-10, 1e-11, 1e-12, 1e-14, 2f64.powi(-53)] {
        plans.push(LawPlan { cell: Cell::newi(Fam::Geometric, &[], &[p]), n: n_grid, origin: "grid_extension" });
    }
    for &fam in DISCRETE.iter() {
        let fts: &[Ft] = if fam.int_only() { &[Ft::F64] } else { &[Ft::F32, Ft::F64] };
        for &ft in fts {
            for cell in grid(fam, ft) {
                // the switch-point grid of the discrete samplers: 1.6e7 draws at the quick tier (a per-atom relative
                // error of 1 % next to a method switch, e.g. a dropped correction term at lambda = 12, is then visible)
                plans.push(LawPlan { cell, n: n_grid.max(16_000_000), origin: "grid" });
            }
            if fam == Fam::StandardGeometric {
                continue;
            }
            for cell in shape_lattice(fam, ft, if ctx.thorough() { 32 } else { 8 }) {
                plans.push(LawPlan { cell, n: if ctx.thorough() { n_rand } else { 2_000_000 }, origin: "shape_lattice" });
            }
            let mut r = BaseRng::from_env(hseed(&[ctx.seed, fam as u64, ft as u64, 0xC02]));
            for _ in 0..k_rand {
                plans.push(LawPlan { cell: random_cell(fam, ft, &mut r), n: n_rand, origin: "random" });
            }
        }
    }
    plans
}

pub fn run(ctx: &Ctx, plans: Vec<LawPlan>, min_n: u64) {
    // dedup identical cells
    let mut seen = std::collections::HashSet::new();
    let plans: Vec<LawPlan> = plans.into_iter().filter(|p| seen.insert(p.cell.key())).collect();
    // known-finding regions: random cells are excluded by construction (counted); listed grid cells stay
    // and are sampled deeply enough to re-establish the finding on every run
    let mut excluded = 0u64;
    let plans: Vec<LawPlan> = plans
        .into_iter()
        .filter_map(|mut p| {
            if !ctx.strict && ctx.in_known_region(&p.cell) {
                if p.origin == "random" {
                    excluded += 1;
                    return None;
                }
                p.n = p.n.max(16_000_000);
            }
            Some(p)
        })
        .collect();
    ctx.class("random_cells_excluded_by_known_finding_region", excluded);
    ctx.set_extra("cells_planned", json!(plans.len()));
    let outs: Vec<Option<LawOutcome>> = plans.par_iter().map(|p| run_cell(ctx, p, min_n)).collect();
    // vacuity guard: every (family, float) that was planned must have produced non-trivial cells;
    // a family whose reference or edge construction silently degenerates is an infrastructure error
    // (exit 2), never a pass
    let mut tally: std::collections::BTreeMap<String, (u64, u64)> = Default::default();
    for (p, o) in plans.iter().zip(outs.iter()) {
        let e = tally.entry(format!("{}:{}", p.cell.fam.name(), ft_name(&p.cell))).or_insert((0, 0));
        e.0 += 1;
        if o.as_ref().map(|o| o.nontrivial).unwrap_or(false) {
            e.1 += 1;
        }
    }
    for (k, (planned, nt)) in &tally {
        if *planned >= 4 && *nt * 2 < *planned {
            ctx.infra(format!("vacuous law check for {k}: only {nt} of {planned} planned cells were non-trivial"));
        }
    }
    ctx.set_extra("nontrivial_by_family", json!(tally.iter().map(|(k, v)| (k.clone(), json!({"planned": v.0, "nontrivial": v.1}))).collect::<serde_json::Map<_, _>>()));
    let total_draws: u64 = outs.iter().flatten().map(|o| o.n).sum();
    ctx.set_extra("total_draws_first_stage", json!(total_draws));
    let body_res = |n: f64| (2.0 * crate::stats::L_THRESH * 0.25 / n).sqrt();
    ctx.set_extra(
        "resolution",
        json!({"L": crate::stats::L_THRESH, "alpha_per_invocation": 1e-9, "tests_bound": crate::stats::T_BOUND,
               "body_edge_resolution_at_n": plans.iter().map(|p| p.n).max().map(|n| body_res(n as f64))}),
    );
}

/// StandardGeometric is a deterministic function of the leading zeros of its words: the value must be the
/// number of leading zero *bits of the stream* (k zeros then a one: probability 2^-(k+1) exactly under ideal
/// words). Every k in 0..=191 is forced (up to three words), with random low bits: the exact induced law.
pub fn standard_geometric_exact(ctx: &Ctx) {
    use crate::rng::VRng;
    use rand::RngExt;
    use rand_distr::Distribution;
    let mut low = BaseRng::from_env(hseed(&[ctx.seed, 0x57D6]));
    let cell = Cell::newi(Fam::StandardGeometric, &[], &[]);
    let mut ev = 0u64;
    for rep in 0..64u64 {
        for k in 0..192u64 {
            let mut rng = VRng::from_env(hseed(&[ctx.seed, rep, k]));
            let (zero_words, kk) = (k / 64, k % 64);
            for z in 0..zero_words {
                rng.force(z, 0);
            }
            let w = (1u64 << (63 - kk)) | (low.random::<u64>() & ((1u64 << (63 - kk)) - 1));
            rng.force(zero_words, w);
            rng.begin_call();
            let r = crate::report::catch(|| rand_distr::StandardGeometric.sample(&mut rng));
            ev += 1;
            let ok = matches!(r, Ok(v) if v == k) && rng.call_words == zero_words + 1;
            if !ok {
                ctx.violation(Violation {
                    property: ctx.property.clone(),
                    family: "StandardGeometric".into(),
                    float: "-".into(),
                    symptom: "law:exact".into(),
                    trigger: format!("leading_zero_bits:{k}"),
                    what: format!("StandardGeometric: a stream starting with {k} zero bits then a one bit returned {:?} after {} words (expected {k} after {} words): the induced law is not 2^-(k+1)", r, rng.call_words, zero_words + 1),
                    case: json!({"kind": "law", "cell": cell, "n": 1000000}),
                });
                ctx.eval(ev);
                return;
            }
        }
    }
    ctx.eval(ev);
    ctx.nontrivial_add(192);
    ctx.class("standard_geometric_exact_streams", ev);
}

pub fn replay(ctx: &Ctx, case: &Value) -> bool {
    let cell: Cell = match serde_json::from_value(case["cell"].clone()) {
        Ok(c) => c,
        Err(_) => return false,
    };
    let n = case["n"].as_u64().unwrap_or(4_000_000);
    run_cell(ctx, &LawPlan { cell, n, origin: "replay" }, 0);
    true
}
