//! C04: constructors accept exactly the documented parameter domain and never panic (DESIGN §5 C04, Appendix C).
use crate::families::{hyper_cost, Ft, HYPER_COST_MAX};
use crate::report::{catch, Ctx, Violation};
use proptest::prelude::*;
use rand_distr::multi::{Dirichlet, MultiDistribution};
use rand_distr::*;
use rayon::prelude::*;
use serde::{Deserialize, Serialize};
use serde_json::json;
use std::fmt::Debug;

#[derive(Clone, Copy, Debug, PartialEq, Eq, Hash, Serialize, Deserialize)]
pub enum Ctor {
    NormalNew,
    NormalMeanCv,
    LogNormalNew,
    LogNormalMeanCv,
    ExpNew,
    GammaNew,
    ChiSquaredNew,
    StudentTNew,
    FisherFNew,
    BetaNew,
    PertMode,
    PertMean,
    TriangularNew,
    CauchyNew,
    ParetoNew,
    WeibullNew,
    GumbelNew,
    FrechetNew,
    SkewNormalNew,
    InverseGaussianNew,
    NigNew,
    BinomialNew,
    PoissonNew,
    GeometricNew,
    HypergeometricNew,
    ZipfNew,
    ZetaNew,
    DirichletNew,
}

pub const ALL: [Ctor; 28] = [
    Ctor::NormalNew, Ctor::NormalMeanCv, Ctor::LogNormalNew, Ctor::LogNormalMeanCv, Ctor::ExpNew, Ctor::GammaNew,
    Ctor::ChiSquaredNew, Ctor::StudentTNew, Ctor::FisherFNew, Ctor::BetaNew, Ctor::PertMode, Ctor::PertMean,
    Ctor::TriangularNew, Ctor::CauchyNew, Ctor::ParetoNew, Ctor::WeibullNew, Ctor::GumbelNew, Ctor::FrechetNew,
    Ctor::SkewNormalNew, Ctor::InverseGaussianNew, Ctor::NigNew, Ctor::BinomialNew, Ctor::PoissonNew,
    Ctor::GeometricNew, Ctor::HypergeometricNew, Ctor::ZipfNew, Ctor::ZetaNew, Ctor::DirichletNew,
];

impl Ctor {
    /// (number of float args, number of u64 args); Dirichlet takes a vector (float args = any length)
    pub fn arity(self) -> (usize, usize) {
        use Ctor::*;
        match self {
            ExpNew | ChiSquaredNew | StudentTNew | PoissonNew | GeometricNew | ZetaNew => (1, 0),
            NormalNew | NormalMeanCv | LogNormalNew | LogNormalMeanCv | GammaNew | FisherFNew | BetaNew | CauchyNew | ParetoNew
            | WeibullNew | GumbelNew | InverseGaussianNew | NigNew | ZipfNew => (2, 0),
            TriangularNew | FrechetNew | SkewNormalNew => (3, 0),
            PertMode | PertMean => (4, 0),
            BinomialNew => (1, 1),
            HypergeometricNew => (0, 3),
            DirichletNew => (usize::MAX, 0),
        }
    }
    pub fn has_f32(self) -> bool {
        !matches!(self, Ctor::BinomialNew | Ctor::GeometricNew | Ctor::HypergeometricNew)
    }
}

#[derive(Clone, Debug, Serialize, Deserialize)]
pub struct CtorCase {
    pub ctor: Ctor,
    pub ft: Ft,
    /// float args as bit patterns of the float type (exact, NaN-safe)
    pub fbits: Vec<u64>,
    pub ints: Vec<u64>,
}

impl CtorCase {
    pub fn f(&self, i: usize) -> f64 {
        match self.ft {
            Ft::F32 => f32::from_bits(self.fbits[i] as u32) as f64,
            Ft::F64 => f64::from_bits(self.fbits[i]),
        }
    }
    pub fn show(&self) -> String {
        let fs: Vec<String> = (0..self.fbits.len()).map(|i| format!("{:e}", self.f(i))).collect();
        format!("{:?}<{:?}>({}{}{:?})", self.ctor, self.ft, fs.join(", "), if self.ints.is_empty() { "" } else { "; " }, self.ints)
    }
}

pub enum Outcome {
    Ok(Vec<(&'static str, u64)>),
    Err(String),
}

fn es<E: Debug>(e: E) -> Outcome {
    Outcome::Err(format!("{:?}", e))
}

trait Fl: num_traits::Float + Debug + 'static {
    fn fb(bits: u64) -> Self;
    fn tb(self) -> u64;
}
impl Fl for f32 {
    fn fb(bits: u64) -> f32 {
        f32::from_bits(bits as u32)
    }
    fn tb(self) -> u64 {
        self.to_bits() as u64
    }
}
impl Fl for f64 {
    fn fb(bits: u64) -> f64 {
        f64::from_bits(bits)
    }
    fn tb(self) -> u64 {
        self.to_bits()
    }
}

macro_rules! call_f {
    ($F:ty, $c:expr) => {{
        type F = $F;
        let c: &CtorCase = $c;
        let a = |i: usize| -> F { F::fb(c.fbits[i]) };
        let ok = |_: ()| Outcome::Ok(vec![]);
        use Ctor::*;
        match c.ctor {
            NormalNew => match Normal::<F>::new(a(0), a(1)) {
                Ok(d) => Outcome::Ok(vec![("mean", d.mean().tb()), ("std_dev", d.std_dev().tb())]),
                Err(e) => es(e),
            },
            NormalMeanCv => match Normal::<F>::from_mean_cv(a(0), a(1)) {
                Ok(d) => Outcome::Ok(vec![("mean", d.mean().tb()), ("std_dev_cv", d.std_dev().tb())]),
                Err(e) => es(e),
            },
            LogNormalNew => LogNormal::<F>::new(a(0), a(1)).map(|_| ()).map(ok).unwrap_or_else(es),
            LogNormalMeanCv => LogNormal::<F>::from_mean_cv(a(0), a(1)).map(|_| ()).map(ok).unwrap_or_else(es),
            ExpNew => Exp::<F>::new(a(0)).map(|_| ()).map(ok).unwrap_or_else(es),
            GammaNew => Gamma::<F>::new(a(0), a(1)).map(|_| ()).map(ok).unwrap_or_else(es),
            ChiSquaredNew => ChiSquared::<F>::new(a(0)).map(|_| ()).map(ok).unwrap_or_else(es),
            StudentTNew => StudentT::<F>::new(a(0)).map(|_| ()).map(ok).unwrap_or_else(es),
            FisherFNew => FisherF::<F>::new(a(0), a(1)).map(|_| ()).map(ok).unwrap_or_else(es),
            BetaNew => Beta::<F>::new(a(0), a(1)).map(|_| ()).map(ok).unwrap_or_else(es),
            // args: min, max, shape, mode|mean
            PertMode => Pert::<F>::new(a(0), a(1)).with_shape(a(2)).with_mode(a(3)).map(|_| ()).map(ok).unwrap_or_else(es),
            PertMean => Pert::<F>::new(a(0), a(1)).with_shape(a(2)).with_mean(a(3)).map(|_| ()).map(ok).unwrap_or_else(es),
            TriangularNew => Triangular::<F>::new(a(0), a(1), a(2)).map(|_| ()).map(ok).unwrap_or_else(es),
            CauchyNew => Cauchy::<F>::new(a(0), a(1)).map(|_| ()).map(ok).unwrap_or_else(es),
            ParetoNew => Pareto::<F>::new(a(0), a(1)).map(|_| ()).map(ok).unwrap_or_else(es),
            WeibullNew => Weibull::<F>::new(a(0), a(1)).map(|_| ()).map(ok).unwrap_or_else(es),
            GumbelNew => Gumbel::<F>::new(a(0), a(1)).map(|_| ()).map(ok).unwrap_or_else(es),
            FrechetNew => Frechet::<F>::new(a(0), a(1), a(2)).map(|_| ()).map(ok).unwrap_or_else(es),
            SkewNormalNew => match SkewNormal::<F>::new(a(0), a(1), a(2)) {
                Ok(d) => Outcome::Ok(vec![("location", d.location().tb()), ("scale", d.scale().tb()), ("shape", d.shape().tb())]),
                Err(e) => es(e),
            },
            InverseGaussianNew => InverseGaussian::<F>::new(a(0), a(1)).map(|_| ()).map(ok).unwrap_or_else(es),
            NigNew => NormalInverseGaussian::<F>::new(a(0), a(1)).map(|_| ()).map(ok).unwrap_or_else(es),
            PoissonNew => Poisson::<F>::new(a(0)).map(|_| ()).map(ok).unwrap_or_else(es),
            ZipfNew => Zipf::<F>::new(a(0), a(1)).map(|_| ()).map(ok).unwrap_or_else(es),
            ZetaNew => Zeta::<F>::new(a(0)).map(|_| ()).map(ok).unwrap_or_else(es),
            DirichletNew => {
                let v: Vec<F> = c.fbits.iter().map(|&b| F::fb(b)).collect();
                match Dirichlet::<F>::new(&v) {
                    Ok(d) => Outcome::Ok(vec![("sample_len", d.sample_len() as u64)]),
                    Err(e) => es(e),
                }
            }
            BinomialNew | GeometricNew | HypergeometricNew => unreachable!(),
        }
    }};
}

pub fn call(c: &CtorCase) -> Outcome {
    match c.ctor {
        Ctor::BinomialNew => Binomial::new(c.ints[0], f64::from_bits(c.fbits[0])).map(|_| Outcome::Ok(vec![])).unwrap_or_else(es),
        Ctor::GeometricNew => Geometric::new(f64::from_bits(c.fbits[0])).map(|_| Outcome::Ok(vec![])).unwrap_or_else(es),
        Ctor::HypergeometricNew => Hypergeometric::new(c.ints[0], c.ints[1], c.ints[2]).map(|_| Outcome::Ok(vec![])).unwrap_or_else(es),
        _ => match c.ft {
            Ft::F32 => call_f!(f32, c),
            Ft::F64 => call_f!(f64, c),
        },
    }
}

#[derive(Default, Debug)]
pub struct Spec {
    /// variants whose documented condition definitely holds (non-empty => must be Err with one of errs ∪ maybe)
    pub errs: Vec<&'static str>,
    /// variants whose condition may hold (documentation silent / borderline)
    pub maybe: Vec<&'static str>,
    /// whole outcome not judged (except "never panics")
    pub unspecified: bool,
    /// expected accessor values when Ok
    pub accessors: Vec<(&'static str, u64)>,
}

/// The oracle table of DESIGN Appendix C.
pub fn spec(c: &CtorCase) -> Spec {
    use Ctor::*;
    let ft = c.ft;
    let x = |i: usize| c.f(i);
    let mut s = Spec::default();
    let notpos = |v: f64| !(v > 0.0);
    let half_notpos = |v: f64| match ft {
        Ft::F32 => !(0.5f32 * (v as f32) > 0.0),
        Ft::F64 => !(0.5 * v > 0.0),
    };
    let fin = |v: f64| v.is_finite();
    match c.ctor {
        NormalNew => {
            if !fin(x(1)) {
                s.errs.push("BadVariance");
            }
            s.accessors = vec![("mean", c.fbits[0]), ("std_dev", c.fbits[1])];
        }
        NormalMeanCv => {
            if !fin(x(1)) {
                s.errs.push("BadVariance");
            } else if x(1) < 0.0 {
                s.unspecified = true;
            }
            let prod = match ft {
                Ft::F32 => ((x(1) as f32) * (x(0) as f32)).to_bits() as u64,
                Ft::F64 => (x(1) * x(0)).to_bits(),
            };
            s.accessors = vec![("mean", c.fbits[0]), ("std_dev_cv", prod)];
        }
        LogNormalNew => {
            if !fin(x(1)) {
                s.errs.push("BadVariance");
            }
        }
        LogNormalMeanCv => {
            let (m, cv) = (x(0), x(1));
            if m < 0.0 || m.is_nan() || (m == 0.0 && cv != 0.0) {
                s.errs.push("MeanTooSmall");
            }
            if cv < 0.0 || cv.is_nan() || cv == f64::INFINITY {
                s.errs.push("BadVariance");
            }
            let mm = match ft {
                Ft::F32 => ((m as f32) * (m as f32)) as f64,
                Ft::F64 => m * m,
            };
            let cc = match ft {
                Ft::F32 => ((cv as f32) * (cv as f32)) as f64,
                Ft::F64 => cv * cv,
            };
            // docs are silent when mean^2 or cv^2 leaves the float range (the derived log-space parameters are then non-finite)
            if s.errs.is_empty() && (m == f64::INFINITY || (m != 0.0 && (mm.is_infinite() || mm == 0.0)) || cc.is_infinite()) {
                s.unspecified = true;
            }
        }
        ExpNew => {
            if x(0).is_sign_negative() || x(0).is_nan() {
                s.errs.push("LambdaTooSmall");
            }
        }
        GammaNew => {
            if notpos(x(0)) {
                s.errs.push("ShapeTooSmall");
            }
            if notpos(x(1)) {
                s.errs.push("ScaleTooSmall");
            }
            if x(1) == f64::INFINITY {
                if s.errs.is_empty() {
                    s.unspecified = true;
                } else {
                    s.maybe.push("ScaleTooLarge");
                }
            }
        }
        ChiSquaredNew | StudentTNew => {
            if half_notpos(x(0)) && x(0) != 1.0 {
                s.errs.push("DoFTooSmall");
            }
        }
        FisherFNew => {
            if half_notpos(x(0)) && x(0) != 1.0 {
                s.errs.push("MTooSmall");
            }
            if half_notpos(x(1)) && x(1) != 1.0 {
                s.errs.push("NTooSmall");
            }
        }
        BetaNew => {
            if notpos(x(0)) {
                s.errs.push("AlphaTooSmall");
            }
            if notpos(x(1)) {
                s.errs.push("BetaTooSmall");
            }
        }
        PertMode | PertMean => {
            let (mn, mx, sh, m) = (x(0), x(1), x(2), x(3));
            if mx < mn || mn.is_nan() || mx.is_nan() {
                s.errs.push("RangeTooSmall");
            }
            if sh < 0.0 || sh.is_nan() {
                s.errs.push("ShapeTooSmall");
            }
            let range_f = match ft {
                Ft::F32 => ((mx as f32) - (mn as f32)) as f64,
                Ft::F64 => mx - mn,
            };
            let any_inf = [mn, mx, sh, m].iter().any(|v| v.is_infinite());
            let mut unsure = mx == mn || any_inf || range_f.is_infinite();
            if c.ctor == PertMode {
                if m < mn || m > mx || m.is_nan() {
                    s.errs.push("ModeRange");
                }
            } else {
                // mode* = ((s+2) m - min - max)/s in (near-)exact arithmetic
                if m.is_nan() {
                    s.errs.push("ModeRange");
                } else if sh == 0.0 || sh.is_nan() || any_inf || mn.is_nan() || mx.is_nan() {
                    unsure = true;
                    s.maybe.push("ModeRange");
                } else {
                    let big = [mn.abs(), mx.abs(), sh.abs(), m.abs()].iter().cloned().fold(0.0, f64::max);
                    let small = [sh.abs(), range_f.abs()].iter().cloned().fold(f64::INFINITY, f64::min);
                    let lim = if ft == Ft::F32 { 1e15 } else { 1e100 };
                    if big > lim || small < 1.0 / lim {
                        unsure = true;
                        s.maybe.push("ModeRange");
                    } else {
                        let cstar = ((sh + 2.0) * m - mn - mx) / sh;
                        let margin = 1e-6 * (mx - mn).abs() + (if ft == Ft::F32 { 1e-5 } else { 1e-13 }) * big * (1.0 + 2.0 / sh.abs());
                        if cstar < mn - margin || cstar > mx + margin {
                            s.errs.push("ModeRange");
                        } else if !(cstar > mn + margin && cstar < mx - margin) {
                            unsure = true;
                            s.maybe.push("ModeRange");
                        }
                    }
                }
            }
            if unsure {
                if s.errs.is_empty() {
                    s.unspecified = true;
                } else {
                    s.maybe.extend_from_slice(&["RangeTooSmall", "ModeRange", "ShapeTooSmall"]);
                }
            }
        }
        TriangularNew => {
            let (mn, mx, m) = (x(0), x(1), x(2));
            if mx < mn || mn.is_nan() || mx.is_nan() {
                s.errs.push("RangeTooSmall");
            }
            if m < mn || m > mx || m.is_nan() {
                s.errs.push("ModeRange");
            }
        }
        CauchyNew => {
            if notpos(x(1)) {
                s.errs.push("ScaleTooSmall");
            }
        }
        ParetoNew | WeibullNew => {
            if notpos(x(0)) {
                s.errs.push("ScaleTooSmall");
            }
            if notpos(x(1)) {
                s.errs.push("ShapeTooSmall");
            }
        }
        GumbelNew => {
            if !fin(x(0)) {
                s.errs.push("LocationNotFinite");
            }
            if !(x(1) > 0.0 && fin(x(1))) {
                s.errs.push("ScaleNotPositive");
            }
        }
        FrechetNew => {
            if !fin(x(0)) {
                s.errs.push("LocationNotFinite");
            }
            if !(x(1) > 0.0 && fin(x(1))) {
                s.errs.push("ScaleNotPositive");
            }
            if !(x(2) > 0.0 && fin(x(2))) {
                s.errs.push("ShapeNotPositive");
            }
        }
        SkewNormalNew => {
            if !(x(1) > 0.0 && fin(x(1))) {
                s.errs.push("ScaleTooSmall");
            }
            if !fin(x(2)) {
                s.errs.push("BadShape");
            }
            s.accessors = vec![("location", c.fbits[0]), ("scale", c.fbits[1]), ("shape", c.fbits[2])];
        }
        InverseGaussianNew => {
            if notpos(x(0)) {
                s.errs.push("MeanNegativeOrNull");
            }
            if notpos(x(1)) {
                s.errs.push("ShapeNegativeOrNull");
            }
        }
        NigNew => {
            if notpos(x(0)) {
                s.errs.push("AlphaNegativeOrNull");
            }
            if x(0) == f64::INFINITY {
                s.errs.push("AlphaInfinite");
            }
            if !(x(1).abs() < x(0)) {
                s.errs.push("AbsoluteBetaNotLessThanAlpha");
            }
        }
        BinomialNew => {
            if x(0) < 0.0 || x(0).is_nan() {
                s.errs.push("ProbabilityTooSmall");
            }
            if x(0) > 1.0 {
                s.errs.push("ProbabilityTooLarge");
            }
        }
        PoissonNew => {
            let l = x(0);
            if l <= 0.0 {
                s.errs.push("ShapeTooSmall");
            }
            if !fin(l) {
                s.errs.push("NonFinite");
            }
            const MAXL: f64 = 1.844e19;
            if l > MAXL && fin(l) || l == f64::INFINITY {
                if ft == Ft::F32 && fin(l) && (l as f32).next_down() as f64 <= MAXL {
                    // within one ulp of MAX_LAMBDA in f32: conversion of the constant is not specified
                    if s.errs.is_empty() {
                        s.unspecified = true;
                    }
                    s.maybe.push("ShapeTooLarge");
                } else {
                    s.errs.push("ShapeTooLarge");
                }
            } else if ft == Ft::F32 && fin(l) && (l as f32).next_up() as f64 > MAXL && l > 0.0 {
                s.unspecified = true;
                s.maybe.push("ShapeTooLarge");
            }
        }
        GeometricNew => {
            if x(0) < 0.0 || x(0) > 1.0 || x(0).is_nan() {
                s.errs.push("InvalidProbability");
            }
        }
        HypergeometricNew => {
            if c.ints[1] > c.ints[0] {
                s.errs.push("ProbabilityTooLarge");
            }
            if c.ints[2] > c.ints[0] {
                s.errs.push("SampleSizeTooLarge");
            }
            if c.ints[0] >= 1000 {
                if s.errs.is_empty() {
                    s.unspecified = true;
                }
                s.maybe.push("PopulationTooLarge");
            }
        }
        ZipfNew => {
            let (n, sv) = (x(0), x(1));
            if sv < 0.0 || sv.is_nan() {
                s.errs.push("STooSmall");
            }
            if n < 1.0 || n.is_nan() {
                s.errs.push("NTooSmall");
            }
            if n == f64::INFINITY && sv <= 1.0 {
                s.errs.push("IllDefined");
            }
        }
        ZetaNew => {
            if !(x(0) > 1.0) {
                s.errs.push("STooSmall");
            }
        }
        DirichletNew => {
            let v: Vec<f64> = (0..c.fbits.len()).map(|i| c.f(i)).collect();
            if v.len() < 2 {
                s.errs.push("AlphaTooShort");
            }
            if v.iter().any(|&a| !(a > 0.0)) {
                s.errs.push("AlphaTooSmall");
            }
            let sub = |a: f64| a != 0.0 && a.is_finite() && a.abs() < ft.min_pos();
            if v.iter().any(|&a| sub(a)) {
                s.errs.push("AlphaSubnormal");
            }
            if v.iter().any(|&a| a == f64::INFINITY) {
                s.errs.push("AlphaInfinite");
            }
            s.accessors = vec![("sample_len", v.len() as u64)];
        }
    }
    s
}

/// Judge one case. Returns (symptom, message) on violation.
pub fn judge(c: &CtorCase) -> Option<(String, String)> {
    if c.ctor == Ctor::HypergeometricNew && hyper_cost(c.ints[0], c.ints[1], c.ints[2]) > HYPER_COST_MAX {
        return None; // cost guard (counted by the caller)
    }
    let sp = spec(c);
    let out = match catch(|| call(c)) {
        Ok(o) => o,
        Err(msg) => return Some(("panic".into(), format!("{} panicked: {}", c.show(), msg.lines().next().unwrap_or("")))),
    };
    if sp.unspecified {
        return None;
    }
    match out {
        Outcome::Ok(acc) => {
            if !sp.errs.is_empty() {
                return Some(("accepted_invalid".into(), format!("{} returned Ok although the documented condition of {:?} holds", c.show(), sp.errs)));
            }
            for (name, exp) in &sp.accessors {
                if let Some((_, got)) = acc.iter().find(|(n, _)| n == name) {
                    if got != exp {
                        return Some(("accessor".into(), format!("{}: accessor {} returned bits {:#x}, expected {:#x}", c.show(), name, got, exp)));
                    }
                }
            }
            None
        }
        Outcome::Err(v) => {
            if sp.errs.is_empty() {
                if sp.maybe.iter().any(|m| *m == v) {
                    return None;
                }
                return Some(("rejected_valid".into(), format!("{} returned Err({}) although no documented error condition holds", c.show(), v)));
            }
            if sp.errs.iter().chain(sp.maybe.iter()).any(|m| *m == v) {
                None
            } else {
                Some(("wrong_variant".into(), format!("{} returned Err({}) but the conditions that hold are {:?}", c.show(), v, sp.errs)))
            }
        }
    }
}

pub fn special_floats(ft: Ft) -> Vec<u64> {
    let mut v: Vec<f64> = vec![f64::NAN, f64::INFINITY, f64::NEG_INFINITY, 0.0, -0.0];
    let (minsub, maxsub, minpos, max, eps) = match ft {
        Ft::F32 => (f32::from_bits(1) as f64, f32::from_bits(0x007f_ffff) as f64, f32::MIN_POSITIVE as f64, f32::MAX as f64, f32::EPSILON as f64),
        Ft::F64 => (f64::from_bits(1), f64::from_bits(0x000f_ffff_ffff_ffff), f64::MIN_POSITIVE, f64::MAX, f64::EPSILON),
    };
    let _ = eps;
    for m in [minsub, maxsub, minpos, max, 1.0, ft.next_down(1.0), ft.next_up(1.0)] {
        v.push(m);
        v.push(-m);
    }
    for t in [0.1, 2.0 / 3.0, 0.5, 12.0, 1.844e19, 2.0, 4.0] {
        let t = ft.rnd(t);
        v.push(ft.next_down(t));
        v.push(t);
        v.push(ft.next_up(t));
    }
    let mut bits: Vec<u64> = v
        .into_iter()
        .map(|x| match ft {
            Ft::F32 => (x as f32).to_bits() as u64,
            Ft::F64 => x.to_bits(),
        })
        .collect();
    let mut seen = std::collections::HashSet::new();
    bits.retain(|b| seen.insert(*b));
    bits
}

pub const SPECIAL_U64: [u64; 12] = [0, 1, 2, 999, 1000, 1 << 53, (1 << 63) - 1, 1 << 63, u64::MAX - 2, u64::MAX - 1, u64::MAX, 40];

fn is_special(c: &CtorCase) -> bool {
    let sf = special_floats(c.ft);
    c.fbits.iter().any(|b| sf.contains(b)) || c.ints.iter().any(|i| SPECIAL_U64.contains(i))
}

fn report(ctx: &Ctx, c: &CtorCase, sym: &str, msg: &str) {
    ctx.violation(Violation {
        property: ctx.property.clone(),
        family: format!("{:?}", c.ctor),
        float: if !c.ctor.has_f32() { "-".into() } else if c.ft == Ft::F32 { "f32".into() } else { "f64".into() },
        symptom: sym.into(),
        trigger: arg_class(c),
        what: msg.into(),
        case: json!({"kind": "ctor", "ctor_case": c}),
    });
}

/// coarse class of the argument tuple, for known-finding signatures
pub fn arg_class(c: &CtorCase) -> String {
    let mut parts = vec![];
    for i in 0..c.fbits.len().min(4) {
        let v = c.f(i);
        parts.push(if v.is_nan() { "nan" } else if v == f64::INFINITY { "+inf" } else if v == f64::NEG_INFINITY { "-inf" } else if v == 0.0 { if v.is_sign_negative() { "-0" } else { "0" } } else if v < 0.0 { "neg" } else if v.abs() < c.ft.min_pos() { "sub" } else { "pos" });
    }
    for &i in c.ints.iter() {
        parts.push(if i >= (1 << 63) { "int>=2^63" } else if i >= (1 << 53) { "int>=2^53" } else { "int" });
    }
    parts.join(",")
}

pub fn run(ctx: &Ctx) {
    use std::sync::atomic::{AtomicU64, Ordering};
    let skipped_cost = AtomicU64::new(0);
    // (1) exhaustive cross product of the special lattice
    for &ctor in ALL.iter() {
        let fts: &[Ft] = if ctor.has_f32() { &[Ft::F32, Ft::F64] } else { &[Ft::F64] };
        for &ft in fts {
            let sf = special_floats(ft);
            let (nf, ni) = ctor.arity();
            let mut cases: Vec<CtorCase> = vec![];
            if ctor == Ctor::DirichletNew {
                // lengths 0..3 exhaustively over the lattice, plus a long vector per special value
                cases.push(CtorCase { ctor, ft, fbits: vec![], ints: vec![] });
                for &a in &sf {
                    cases.push(CtorCase { ctor, ft, fbits: vec![a], ints: vec![] });
                    for &b in &sf {
                        cases.push(CtorCase { ctor, ft, fbits: vec![a, b], ints: vec![] });
                        for &c3 in &sf {
                            cases.push(CtorCase { ctor, ft, fbits: vec![a, b, c3], ints: vec![] });
                        }
                    }
                    let one = match ft { Ft::F32 => 1.0f32.to_bits() as u64, Ft::F64 => 1.0f64.to_bits() };
                    let mut long = vec![one; 40];
                    long[17] = a;
                    cases.push(CtorCase { ctor, ft, fbits: long, ints: vec![] });
                }
            } else {
                let total = sf.len().pow(nf as u32) * SPECIAL_U64.len().pow(ni as u32);
                for idx in 0..total {
                    let mut k = idx;
                    let mut fb = vec![];
                    for _ in 0..nf {
                        fb.push(sf[k % sf.len()]);
                        k /= sf.len();
                    }
                    let mut is = vec![];
                    for _ in 0..ni {
                        is.push(SPECIAL_U64[k % SPECIAL_U64.len()]);
                        k /= SPECIAL_U64.len();
                    }
                    cases.push(CtorCase { ctor, ft, fbits: fb, ints: is });
                }
            }
            let n = cases.len() as u64;
            cases.par_iter().for_each(|c| {
                if c.ctor == Ctor::HypergeometricNew && hyper_cost(c.ints[0], c.ints[1], c.ints[2]) > HYPER_COST_MAX {
                    skipped_cost.fetch_add(1, Ordering::Relaxed);
                    return;
                }
                if let Some((sym, msg)) = judge(c) {
                    report(ctx, c, &sym, &msg);
                }
            });
            ctx.eval(n);
            ctx.nontrivial_add(n);
            ctx.class(&format!("lattice_cross_product:{:?}:{:?}", ctor, ft), n);
            if let Some(c) = cases.get(cases.len() / 3) {
                ctx.sample(crate::rng::hstr(&c.show()), || json!({"case": c.show(), "spec": format!("{:?}", spec(c))}));
            }
        }
    }
    // (2) random tuples (any bit pattern, biased to the lattice and its neighbourhood), proptest with shrinking
    let per = if ctx.thorough() { 400_000 } else { 20_000 };
    let jobs: Vec<(Ctor, Ft)> = ALL.iter().flat_map(|&c| if c.has_f32() { vec![(c, Ft::F32), (c, Ft::F64)] } else { vec![(c, Ft::F64)] }).collect();
    jobs.par_iter().for_each(|&(ctor, ft)| {
        let sf = special_floats(ft);
        let fstrat = {
            let sf = sf.clone();
            prop_oneof![
                3 => (0..sf.len()).prop_map(move |i| sf[i]),
                3 => any::<u64>().prop_map(move |b| if ft == Ft::F32 { b & 0xffff_ffff } else { b }),
                2 => (-1000.0f64..1000.0).prop_map(move |x| if ft == Ft::F32 { (x as f32).to_bits() as u64 } else { x.to_bits() }),
                1 => (0.0f64..1.0).prop_map(move |x| if ft == Ft::F32 { (x as f32).to_bits() as u64 } else { x.to_bits() }),
            ]
        };
        let istrat = prop_oneof![
            2 => (0..SPECIAL_U64.len()).prop_map(|i| SPECIAL_U64[i]),
            2 => 0u64..200,
            1 => any::<u64>(),
            1 => 0u64..2_000_000,
        ];
        let (nf, ni) = ctor.arity();
        let (fl, fh) = if ctor == Ctor::DirichletNew { (0usize, 9usize) } else { (nf, nf + 1) };
        let strat = (proptest::collection::vec(fstrat, fl..fh), proptest::collection::vec(istrat, ni..ni + 1))
            .prop_map(move |(fbits, ints)| CtorCase { ctor, ft, fbits, ints });
        let evals = AtomicU64::new(0);
        let nontriv = AtomicU64::new(0);
        let seed = crate::rng::hseed(&[ctx.seed, ctor as u64, ft as u64, 0xC04]);
        let res = crate::pt::search(seed, per, strat, |c| {
            evals.fetch_add(1, Ordering::Relaxed);
            if is_special(c) {
                nontriv.fetch_add(1, Ordering::Relaxed);
            }
            if c.ctor == Ctor::HypergeometricNew && hyper_cost(c.ints[0], c.ints[1], c.ints[2]) > HYPER_COST_MAX {
                skipped_cost.fetch_add(1, Ordering::Relaxed);
                return None;
            }
            match judge(c) {
                None => None,
                Some((sym, msg)) => {
                    // known findings are excluded so that the search continues behind them (counted)
                    let fl = if !c.ctor.has_f32() { "-" } else if c.ft == Ft::F32 { "f32" } else { "f64" };
                    if !ctx.strict && ctx.is_known(&format!("{:?}", c.ctor), fl, &sym, &arg_class(c)) {
                        ctx.class("random_cases_excluded_by_known_finding", 1);
                        None
                    } else {
                        Some(format!("{sym}|{msg}"))
                    }
                }
            }
        });
        ctx.eval(evals.load(Ordering::Relaxed));
        ctx.nontrivial_add(nontriv.load(Ordering::Relaxed).min(per as u64));
        ctx.class(&format!("random:{:?}:{:?}", ctor, ft), evals.load(Ordering::Relaxed));
        if let Err((c, msg)) = res {
            let (sym, m) = msg.split_once('|').unwrap_or(("violation", &msg));
            report(ctx, &c, sym, m);
        }
    });
    ctx.set_extra("hypergeometric_tuples_skipped_by_cost_guard", json!(skipped_cost.load(Ordering::Relaxed)));
}

pub fn replay(ctx: &Ctx, case: &serde_json::Value) -> bool {
    let c: CtorCase = match serde_json::from_value(case["ctor_case"].clone()) {
        Ok(c) => c,
        Err(_) => return false,
    };
    ctx.eval(1);
    if let Some((sym, msg)) = judge(&c) {
        report(ctx, &c, &sym, &msg);
    }
    true
}
