//! Parameter envelope E and switch-point grids (DESIGN §4). Fixed a priori.
use crate::families::{hyper_cost, hyper_is_hin, Cell, Fam, Ft, HYPER_COST_MAX};
use crate::rng::BaseRng;
use rand::RngExt;

fn uni(r: &mut BaseRng, lo: f64, hi: f64) -> f64 {
    lo + (hi - lo) * r.random::<f64>()
}
fn logu(r: &mut BaseRng, lo: f64, hi: f64) -> f64 {
    (uni(r, lo.ln(), hi.ln())).exp().clamp(lo, hi)
}
fn pick<T: Copy>(r: &mut BaseRng, v: &[T]) -> T {
    v[r.random_range(0..v.len())]
}

/// shape ranges (lo, hi) of E per family and float type
pub fn shape_range(fam: Fam, ft: Ft) -> (f64, f64) {
    let f32_ = ft == Ft::F32;
    match fam {
        Fam::Gamma => if f32_ { (0.3, 1e3) } else { (0.06, 1e5) },
        Fam::ChiSquared => if f32_ { (0.6, 2e3) } else { (0.12, 2e5) },
        Fam::StudentT => if f32_ { (0.6, 2e3) } else { (0.15, 1e4) },
        Fam::FisherF => if f32_ { (0.6, 2e3) } else { (0.12, 1e5) },
        Fam::Beta => if f32_ { (0.3, 1e3) } else { (0.05, 1e4) },
        Fam::Pareto => if f32_ { (0.25, 1e3) } else { (0.06, 1e4) },
        Fam::Weibull | Fam::Frechet => if f32_ { (0.25, 1e3) } else { (0.06, 1e3) },
        Fam::Poisson => if f32_ { (1e-3, 1048576.0) } else { (1e-3, 1e15) },
        Fam::Zeta => if f32_ { (1.1, 20.0) } else { (1.01, 50.0) },
        _ => (1.0, 1.0),
    }
}

fn p4(ft: Ft) -> f64 {
    if ft == Ft::F32 { 100.0 } else { 1e6 }
}

fn around(ft: Ft, x: f64) -> Vec<f64> {
    // both sides of the switch at log-spaced distances: 1 ulp, 1e-5, 3e-4, 1e-3, 1e-2 (relative)
    let mut v = vec![ft.next_down(x), ft.rnd(x), ft.next_up(x)];
    for d in [1e-5, 3e-4, 1e-3, 1e-2] {
        v.push(ft.rnd(x * (1.0 - d)));
        v.push(ft.rnd(x * (1.0 + d)));
    }
    v
}

fn c(fam: Fam, ft: Ft, p: &[f64]) -> Cell {
    Cell::new(fam, ft, p)
}

/// Deterministic switch-point grid for a family/type (always run first).
pub fn grid(fam: Fam, ft: Ft) -> Vec<Cell> {
    let (slo, shi) = shape_range(fam, ft);
    let mut v = vec![];
    match fam {
        Fam::StandardNormal | Fam::Exp1 | Fam::StandardGeometric => v.push(c(fam, ft, &[])),
        Fam::Normal => {
            for &(m, s) in &[(0.0, 1.0), (0.0, -1.0), (1000.0, 10.0), (-1000.0, 1000.0), (0.1, 1e-3), (3.0, -2.0), (-7.5, 0.25), (100.0, 1.0)] {
                v.push(c(fam, ft, &[m, s]));
            }
        }
        Fam::LogNormal => {
            for &(m, s) in &[(0.0, 1.0), (0.0, -1.0), (5.0, 3.0), (-5.0, 0.01), (1.0, 0.5), (-2.0, -3.0), (5.0, 0.01)] {
                v.push(c(fam, ft, &[m, s]));
            }
        }
        Fam::Exp => {
            for &l in &[1.0, 1e-3, 1e3, 0.5, 7.5] {
                v.push(c(fam, ft, &[l]));
            }
        }
        Fam::Gamma => {
            let mut ks = around(ft, 1.0);
            ks.extend_from_slice(&[1.0 / 3.0, 0.5, 2.0, slo, shi, 10.0, 100.0, 1.5, 0.9]);
            for k in ks {
                v.push(c(fam, ft, &[k, 1.0]));
            }
            for &(k, th) in &[(0.5, 1e-3), (0.5, 1e3), (3.0, 1e-3), (3.0, 1e3), (1.0, 1e3), (1.0, 1e-3)] {
                v.push(c(fam, ft, &[k, th]));
            }
        }
        Fam::ChiSquared => {
            let mut ks = vec![ft.next_down(1.0), 1.0, ft.next_up(1.0), ft.next_down(2.0), 2.0, ft.next_up(2.0)];
            ks.extend_from_slice(&[slo, shi, 3.0, 10.0, 1.5, 0.8, 100.0]);
            for k in ks {
                v.push(c(fam, ft, &[k]));
            }
        }
        Fam::StudentT => {
            let mut ks = vec![ft.next_down(1.0), 1.0, ft.next_up(1.0), ft.next_down(2.0), 2.0, ft.next_up(2.0)];
            ks.extend_from_slice(&[slo, shi, 5.0, 30.0, 0.8, 3.0]);
            for k in ks {
                v.push(c(fam, ft, &[k]));
            }
        }
        Fam::FisherF => {
            let sp = [ft.next_down(1.0), 1.0, ft.next_up(1.0), ft.next_down(2.0), 2.0, ft.next_up(2.0)];
            for &m in &sp {
                for &n in &[1.0, 2.0, 5.0] {
                    v.push(c(fam, ft, &[m, n]));
                    v.push(c(fam, ft, &[n, m]));
                }
            }
            for &(m, n) in &[(slo, slo), (shi, shi), (slo, shi), (shi, slo), (3.0, 7.0), (10.0, 4.0), (100.0, 100.0)] {
                v.push(c(fam, ft, &[m, n]));
            }
        }
        Fam::Beta => {
            let one = [ft.next_down(1.0), 1.0, ft.next_up(1.0)];
            for &a in &one {
                for &b in &[0.5, 1.0, 3.0, ft.next_up(1.0)] {
                    v.push(c(fam, ft, &[a, b]));
                    v.push(c(fam, ft, &[b, a]));
                }
            }
            // both parameters just above the BB switch at *different* distances: alpha - 2 and 2ab - alpha are small
            // differences there (finding C01-Beta-BB-cancellation; ulp-symmetric pairs happen to be exact)
            let e = ft.eps();
            for &(da, db) in &[(19.0 * e, 2.0 * e), (3.0 * e, 100.0 * e), (1e-6, 3e-6), (1e-5, 1e-6), (1e-5, 3e-5), (1e-4, 1e-6), (1e-3, 1e-6)] {
                v.push(c(fam, ft, &[1.0 + da, 1.0 + db]));
                v.push(c(fam, ft, &[1.0 + db, 1.0 + da]));
            }
            for &(a, b) in &[
                (slo, slo), (shi, shi), (slo, shi), (shi, slo), (2.0, 3.0), (3.0, 2.0), (2.0, 2.0), (0.5, 0.5), (0.5, 0.7), (0.7, 0.5),
                (30.0, 5.0), (5.0, 30.0), (1.5, 100.0), (0.4, 10.0), (10.0, 0.4),
            ] {
                v.push(c(fam, ft, &[a, b]));
            }
        }
        Fam::Pert => {
            for &(mn, mx) in &[(0.0, 1.0), (-1000.0, 1000.0), (1.0, 5.0), (-3.0, -1.0), (999.0, 1000.0)] {
                for &t in &[0.0, 0.5, 1.0, 0.25] {
                    for &sh in &[4.0, 0.0, 100.0, 1.0] {
                        let mode = if t == 0.0 { mn } else if t == 1.0 { mx } else { mn + t * (mx - mn) };
                        v.push(c(fam, ft, &[mn, mx, mode, sh]));
                    }
                }
            }
        }
        Fam::Triangular => {
            for &(mn, mx) in &[(0.0, 1.0), (-1000.0, 1000.0), (1.0, 5.0), (-3.0, -1.0), (999.0, 1000.0)] {
                for &t in &[0.0, 0.5, 1.0, 0.1] {
                    let mode = if t == 0.0 { mn } else if t == 1.0 { mx } else { mn + t * (mx - mn) };
                    v.push(c(fam, ft, &[mn, mx, mode]));
                }
            }
            v.push(c(fam, ft, &[2.0, 2.0, 2.0]));
            v.push(c(fam, ft, &[-5.0, -5.0, -5.0]));
        }
        Fam::Cauchy => {
            for &(m, s) in &[(0.0, 1.0), (1000.0, 10.0), (-1000.0, 1000.0), (0.1, 1e-3), (3.0, 2.0), (-100.0, 1.0)] {
                v.push(c(fam, ft, &[m, s]));
            }
        }
        Fam::Pareto => {
            for &a in &[1.0, 0.5, slo, shi, 2.0, 10.0, 3.0, 0.3] {
                v.push(c(fam, ft, &[1.0, a]));
            }
            for &(x, a) in &[(1e-3, 2.0), (1e3, 2.0), (1e3, 0.5), (1e-3, 0.3)] {
                v.push(c(fam, ft, &[x, a]));
            }
        }
        Fam::Weibull => {
            for &k in &[1.0, 0.5, 1.0 / 3.0, slo, shi, 2.0, 10.0, 3.0] {
                v.push(c(fam, ft, &[1.0, k]));
            }
            for &(l, k) in &[(1e-3, 2.0), (1e3, 2.0), (1e3, 0.5), (1e-3, 0.3)] {
                v.push(c(fam, ft, &[l, k]));
            }
        }
        Fam::Gumbel => {
            for &(m, s) in &[(0.0, 1.0), (1000.0, 10.0), (-1000.0, 1000.0), (0.1, 1e-3), (3.0, 2.0), (-100.0, 1.0)] {
                v.push(c(fam, ft, &[m, s]));
            }
        }
        Fam::Frechet => {
            for &a in &[1.0, 0.5, 1.0 / 3.0, slo, shi, 2.0, 10.0, 3.0] {
                v.push(c(fam, ft, &[0.0, 1.0, a]));
            }
            for &(m, s, a) in &[(1000.0, 10.0, 2.0), (-1000.0, 1000.0, 1.0), (0.1, 1e-3, 3.0), (-100.0, 1.0, 0.5), (3.0, 2.0, 1.0 / 3.0)] {
                v.push(c(fam, ft, &[m, s, a]));
            }
        }
        Fam::SkewNormal => {
            let mut al = vec![-0.0, 0.0, 1.0, -1.0, 100.0, -100.0, 0.5, -0.5, 5.0, -5.0];
            for s in [1.0, -1.0] {
                al.push(ft.next_up(s));
                al.push(ft.next_down(s));
            }
            for a in al {
                v.push(c(fam, ft, &[0.0, 1.0, a]));
            }
            for &(m, s, a) in &[(1000.0, 10.0, 2.0), (-1000.0, 1000.0, -3.0), (0.1, 1e-3, 1.0), (-100.0, 1.0, -1.0), (3.0, 2.0, 0.0)] {
                v.push(c(fam, ft, &[m, s, a]));
            }
        }
        Fam::InverseGaussian => {
            for &mu in &[1.0, 1e-3, 1e3] {
                for &r in &[1e-2, 1e2, 1.0, 0.1, 10.0] {
                    // keep the ratio inside E after rounding to the float type
                    let mu = ft.rnd(mu);
                    let mut l = ft.rnd(mu * r);
                    while l / mu < 1e-2 {
                        l = ft.next_up(l);
                    }
                    while l / mu > 1e2 {
                        l = ft.next_down(l);
                    }
                    v.push(c(fam, ft, &[mu, l]));
                }
            }
        }
        Fam::Nig => {
            for &a in &[1.0, 0.1, 100.0, 2.0, 10.0] {
                for &r in &[0.0, 0.95, -0.95, 0.5, -0.3] {
                    v.push(c(fam, ft, &[a, a * r]));
                }
            }
        }
        Fam::NormalMeanCv => {
            for &(m, cv) in &[(1.0, 1.0), (-3.0, 0.5), (100.0, 0.01), (1000.0, 1e-3), (-0.5, 2.0), (7.0, 0.0)] {
                v.push(c(fam, ft, &[m, cv]));
            }
        }
        Fam::LogNormalMeanCv => {
            for &(m, cv) in &[(1.0, 1.0), (3.0, 1.3108324944320862), (2.0, 4.0), (10.0, 0.1), (0.5, 0.5), (100.0, 1.2), (1.0, 1.4), (5.0, 0.02), (1e-2, 2.5)] {
                v.push(c(fam, ft, &[m, cv]));
            }
        }
        Fam::PertMean => {
            for &(mn, mx) in &[(0.0, 1.0), (-10.0, 10.0), (1.0, 5.0), (-3.0, -1.0), (100.0, 101.0)] {
                for &(t, sh) in &[(0.5, 4.0), (0.3, 4.0), (0.7, 1.0), (0.45, 5.0), (0.6, 20.0), (0.35, 2.5)] {
                    // t is the mode fraction; the mean argument follows from the documented relation
                    let mode = mn + t * (mx - mn);
                    v.push(c(fam, ft, &[mn, mx, (mn + sh * mode + mx) / (sh + 2.0), sh]));
                }
            }
        }
        Fam::Binomial => {
            let ps = [0.0, 2f64.powi(-54), 2f64.powi(-53), 0.5f64.next_down(), 0.5, 0.5f64.next_up(), 1.0 - 2f64.powi(-53), 1.0, 0.1, 0.9, 1e-9];
            for &n in &[0u64, 1, 2, 20, 1000, 1 << 53, 1 << 62] {
                for &p in &ps {
                    v.push(Cell::newi(fam, &[n], &[p]));
                }
            }
            // BINV/BTPE threshold np = 10
            for &n in &[20u64, 100, 1000, 1_000_000, 1 << 40] {
                for f in [1.0 - 1e-3, 1.0, 1.0 + 1e-3] {
                    let p = 10.0 * f / n as f64;
                    v.push(Cell::newi(fam, &[n], &[p]));
                    v.push(Cell::newi(fam, &[n], &[p.next_down()]));
                    v.push(Cell::newi(fam, &[n], &[p.next_up()]));
                    v.push(Cell::newi(fam, &[n], &[1.0 - p]));
                }
            }
            // BINV with tiny p and huge n (np < 10): (1-p)^n must not be formed from the rounded 1-p
            for &(n, p) in &[(1_000_000_000_000_000u64, 5e-16), (2_178_794_427_406_433, 2.688974864378525e-16), (100_000_000_000_000, 7e-14), (1_000_000_000_000, 5e-13), (1u64 << 52, 1e-15), (1u64 << 52, 1.0 - 1e-15)] {
                v.push(Cell::newi(fam, &[n], &[p]));
            }
            // squeeze threshold regions and moderate BTPE
            for &(n, p) in &[(50u64, 0.3), (100, 0.5), (1000, 0.3), (1000, 0.7), (100000, 0.01), (1 << 30, 0.5), (1 << 30, 1e-3), (40, 0.5), (25, 0.45)] {
                v.push(Cell::newi(fam, &[n], &[p]));
            }
        }
        Fam::Poisson => {
            let mut ls = around(ft, 12.0);
            ls.extend_from_slice(&[slo, shi, 1.0, 5.0, 11.0, 13.0, 13.1484, 14.0, 20.0, 50.0, 100.0, 1000.0, 0.1]);
            if ft == Ft::F64 {
                ls.extend_from_slice(&[1e6, 1e9, 1e12]);
            } else {
                ls.extend_from_slice(&[1e4, 1e5]);
            }
            for l in ls {
                v.push(c(fam, ft, &[l]));
            }
        }
        Fam::Geometric => {
            let t = 2.0f64 / 3.0;
            for p in [0.0, 2f64.powi(-54), 1e-9, 1e-6, 1e-3, 0.01, 0.1, 0.25, 1.0 - 0.5f64.sqrt(), (1.0 - 0.5f64.sqrt()).next_down(), (1.0 - 0.5f64.sqrt()).next_up(), 0.5, 0.6, t.next_down(), t, t.next_up(), 0.9, 0.999, 1.0] {
                v.push(Cell::newi(fam, &[], &[p]));
            }
        }
        Fam::Hypergeometric => {
            // four reflections, parity, HIN/H2PE boundary (mode - lower = 9 / 10), m = 99/100
            let mut cand: Vec<(u64, u64, u64)> = vec![];
            for &nn in &[100u64, 101, 1000, 1001, 100_000, 1 << 20, (1 << 30) + 1, 1 << 40] {
                for &(kf, sf) in &[(0.3, 0.2), (0.7, 0.2), (0.3, 0.8), (0.7, 0.8), (0.5, 0.5), (0.01, 0.5), (0.5, 0.01)] {
                    cand.push((nn, (nn as f64 * kf) as u64, (nn as f64 * sf) as u64));
                }
            }
            // boundary search: for N=1000, K=500 find n where mode crosses 10
            for &nn in &[1000u64, 5000, 100_000] {
                let kk = nn / 2;
                for n in 10..60u64 {
                    let m = ((n + 1) as f64 * (kk + 1) as f64 / (nn + 2) as f64).floor();
                    if m == 9.0 || m == 10.0 {
                        cand.push((nn, kk, n));
                    }
                }
                // m in {99,100}
                for n in 190..210u64 {
                    cand.push((nn, kk, n));
                }
            }
            cand.push((0, 0, 0));
            cand.push((1, 1, 1));
            cand.push((10, 10, 5));
            cand.push((10, 0, 5));
            for (nn, kk, n) in cand {
                if kk <= nn && n <= nn && hyper_cost(nn, kk, n) <= HYPER_COST_MAX {
                    v.push(Cell::newi(fam, &[nn, kk, n], &[]));
                }
            }
        }
        Fam::Zipf => {
            let nmax = if ft == Ft::F32 { 1048576.0 } else { 1e15 };
            for &n in &[1.0, 2.0, 3.0, 10.0, 1000.0, nmax] {
                let mut ss = around(ft, 1.0);
                ss.extend_from_slice(&[0.0, 0.5, 2.0, 10.0, 1.5]);
                for s in ss {
                    v.push(c(fam, ft, &[n, s]));
                }
            }
        }
        Fam::Zeta => {
            for &s in &[slo, shi, 1.5, 2.0, 3.0, 5.0, 1.2, 10.0] {
                v.push(c(fam, ft, &[s]));
            }
            if ft == Ft::F64 {
                v.push(c(fam, ft, &[1.05]));
            }
        }
        _ => {}
    }
    v
}

/// Dense log-spaced lattice over the shape-like parameter of a family (other parameters canonical): closes the
/// gaps between the switch grid and the random cells, so that a law defect confined to a shape interval of
/// width >= 1/per_decade decades is always sampled.
pub fn shape_lattice(fam: Fam, ft: Ft, per_decade: usize) -> Vec<Cell> {
    let (slo, shi) = shape_range(fam, ft);
    let mut v = vec![];
    let span = |lo: f64, hi: f64| -> Vec<f64> {
        let n = (((hi / lo).log10()) * per_decade as f64).ceil() as usize;
        let mut xs: Vec<f64> = (0..=n).map(|i| lo * (hi / lo).powf(i as f64 / n.max(1) as f64)).collect();
        // "nice" values: where a hand-written fast path or special case would sit (k = 2, 1/2, 1/3, ...)
        for &x in &[0.25, 1.0 / 3.0, 0.5, 2.0 / 3.0, 0.75, 1.0, 1.5, 2.0, 2.5, 3.0, 4.0, 5.0, 6.0, 8.0, 10.0, 12.0, 16.0, 20.0, 30.0, 50.0, 100.0] {
            if x >= lo && x <= hi {
                xs.push(x);
            }
        }
        xs
    };
    match fam {
        Fam::Gamma => for k in span(slo, shi.min(300.0)) { v.push(c(fam, ft, &[k, 1.0])); },
        Fam::ChiSquared | Fam::StudentT => for k in span(slo, shi.min(300.0)) { v.push(c(fam, ft, &[k])); },
        Fam::FisherF => for k in span(slo, shi.min(100.0)) { v.push(c(fam, ft, &[k, 3.5])); v.push(c(fam, ft, &[4.5, k])); },
        Fam::Beta => for k in span(slo, shi.min(100.0)) { v.push(c(fam, ft, &[k, k])); v.push(c(fam, ft, &[k, 2.5])); v.push(c(fam, ft, &[0.7, k])); },
        Fam::Pareto | Fam::Weibull => for k in span(slo, shi.min(100.0)) { v.push(c(fam, ft, &[1.0, k])); },
        Fam::Frechet => for k in span(slo, shi.min(100.0)) { v.push(c(fam, ft, &[0.0, 1.0, k])); },
        Fam::SkewNormal => for a in span(0.05, 100.0) { v.push(c(fam, ft, &[0.0, 1.0, a])); v.push(c(fam, ft, &[0.0, 1.0, -a])); },
        Fam::InverseGaussian => for r in span(1e-2, 1e2) { let mu = ft.rnd(1.0); let mut l = ft.rnd(r); if l < 1e-2 { l = ft.next_up(ft.rnd(1e-2)); } v.push(c(fam, ft, &[mu, l])); },
        Fam::Nig => for a in span(0.1, 100.0) { v.push(c(fam, ft, &[a, 0.0])); v.push(c(fam, ft, &[a, 0.6 * a])); },
        Fam::LogNormal => for s in span(1e-2, 3.0) { v.push(c(fam, ft, &[0.0, s])); },
        Fam::LogNormalMeanCv => for cv in span(1e-2, 10.0) { v.push(c(fam, ft, &[1.0, cv])); },
        Fam::Pert => for sh in span(0.1, 100.0) { v.push(c(fam, ft, &[0.0, 1.0, 0.3, sh])); },
        Fam::PertMean => for sh in span(0.5, 100.0) { v.push(c(fam, ft, &[-1.0, 3.0, (-1.0 + sh * 0.2 + 3.0) / (sh + 2.0), sh])); },
        Fam::Poisson => for l in span(0.05, shi.min(1e5)) { v.push(c(fam, ft, &[l])); },
        Fam::Zeta => for s1 in span(slo - 1.0, shi - 1.0) { v.push(c(fam, ft, &[1.0 + s1])); },
        Fam::Zipf => { let nmax = if ft == Ft::F32 { 1048576.0 } else { 1e9 }; for s in span(0.05, 10.0) { v.push(c(fam, ft, &[nmax, s])); v.push(c(fam, ft, &[50.0, s])); } },
        Fam::Geometric => for p in span(1e-6, 0.999) { v.push(Cell::newi(fam, &[], &[p])); },
        Fam::Binomial => {
            // np lattice through the BINV / BTPE regimes for three sizes
            for &n in &[64u64, 5000, 1 << 32] {
                for np in span(0.2, (n as f64 / 2.0).min(3000.0)) {
                    let p = np / n as f64;
                    v.push(Cell::newi(fam, &[n], &[p]));
                    v.push(Cell::newi(fam, &[n], &[1.0 - p]));
                }
            }
        }
        _ => {}
    }
    v
}

/// Hypergeometric at the large end of the integer range (C03 / C05 quantify up to the extremes of u64; the
/// constructor accepts N <= i64::MAX): N = 2^e and 1.5 * 2^e for e = 40..62, five (K/N, n/N) shapes each.
/// Only tuples below the construction-cost guard (i.e. on the H2PE side, or cheap HIN) are kept.
pub fn hyper_huge_cells() -> Vec<Cell> {
    let mut v = vec![];
    for e in 40..=62u32 {
        for half in [0u32, 1] {
            let nn = if half == 0 { 1u64 << e } else { (1u64 << e) / 2 * 3 };
            if nn > i64::MAX as u64 {
                continue;
            }
            for &(fk, fnn) in &[(0.5, 0.5), (0.4, 0.3), (0.1, 0.05), (1e-3, 0.3), (0.3, 1e-4)] {
                let (kk, n) = ((nn as f64 * fk) as u64, (nn as f64 * fnn) as u64);
                if kk <= nn && n <= nn && hyper_cost(nn, kk, n) <= HYPER_COST_MAX {
                    v.push(Cell::newi(Fam::Hypergeometric, &[nn, kk, n], &[]));
                }
            }
        }
    }
    v
}

/// A random cell inside E; 25 % of the mass on near-switch perturbations.
pub fn random_cell(fam: Fam, ft: Ft, r: &mut BaseRng) -> Cell {
    let (slo, shi) = shape_range(fam, ft);
    let near = r.random::<f64>() < 0.25;
    let nearv = |r: &mut BaseRng, sw: &[f64]| -> f64 {
        let s = pick(r, sw);
        let k = pick(r, &[1i32, 2, 16]);
        let mut x = s;
        match r.random_range(0..4) {
            0 => {
                for _ in 0..k {
                    x = ft.next_up(x);
                }
            }
            1 => {
                for _ in 0..k {
                    x = ft.next_down(x);
                }
            }
            // log-uniform relative distance in [1e-6, 1e-1] on either side
            2 => x = s * (1.0 + (uni(r, -6.0, -1.0) * std::f64::consts::LN_10).exp()),
            _ => x = s * (1.0 - (uni(r, -6.0, -1.0) * std::f64::consts::LN_10).exp()),
        }
        x
    };
    let loc_scale = |r: &mut BaseRng| -> (f64, f64) {
        let s = logu(r, 1e-3, 1e3);
        let m = uni(r, -1.0, 1.0) * (p4(ft) * s).min(1e3);
        (m, s)
    };
    match fam {
        Fam::StandardNormal | Fam::Exp1 | Fam::StandardGeometric => c(fam, ft, &[]),
        Fam::Normal => {
            let (m, s) = loc_scale(r);
            let s = if r.random::<bool>() { s } else { -s };
            c(fam, ft, &[m, s])
        }
        Fam::LogNormal => {
            let s = logu(r, 1e-2, 3.0);
            let s = if r.random::<bool>() { s } else { -s };
            c(fam, ft, &[uni(r, -5.0, 5.0), s])
        }
        Fam::Exp => c(fam, ft, &[logu(r, 1e-3, 1e3)]),
        Fam::Gamma => {
            let k = if near { nearv(r, &[1.0]).clamp(slo, shi) } else { logu(r, slo, shi) };
            c(fam, ft, &[k, logu(r, 1e-3, 1e3)])
        }
        Fam::ChiSquared | Fam::StudentT => {
            let k = if near { nearv(r, &[1.0, 2.0]).clamp(slo, shi) } else { logu(r, slo, shi) };
            c(fam, ft, &[k])
        }
        Fam::FisherF => {
            let m = if near { nearv(r, &[1.0, 2.0]) } else { logu(r, slo, shi) };
            let n = if near && r.random::<bool>() { nearv(r, &[1.0, 2.0]) } else { logu(r, slo, shi) };
            c(fam, ft, &[m, n])
        }
        Fam::Beta => {
            let a = if near { nearv(r, &[1.0]) } else { logu(r, slo, shi) };
            let b = match r.random_range(0..4) {
                0 => a,
                1 if near => nearv(r, &[1.0]),
                _ => logu(r, slo, shi),
            };
            if r.random::<bool>() { c(fam, ft, &[a, b]) } else { c(fam, ft, &[b, a]) }
        }
        Fam::Pert | Fam::Triangular => {
            // min < max in ±1e3, range >= 1e-3 * max|.|
            let a = uni(r, -1e3, 1e3);
            let big = a.abs().max(1.0);
            let range = logu(r, 1e-3 * big * 2.0, (1e3 - a).max(1e-3 * big * 4.0));
            let (mn, mx) = (ft.rnd(a), ft.rnd((a + range).min(1e3)));
            let (mn, mx) = if mx > mn { (mn, mx) } else { (mn, ft.next_up(mn)) };
            let t = match r.random_range(0..6) {
                0 => 0.0,
                1 => 1.0,
                2 => 0.5,
                _ => r.random::<f64>(),
            };
            let mode = ft.rnd(mn + t * (mx - mn)).clamp(mn, mx);
            if fam == Fam::Pert {
                let sh = match r.random_range(0..5) {
                    0 => 0.0,
                    1 => 4.0,
                    _ => uni(r, 0.0, 100.0),
                };
                c(fam, ft, &[mn, mx, mode, sh])
            } else {
                c(fam, ft, &[mn, mx, mode])
            }
        }
        Fam::Cauchy | Fam::Gumbel => {
            let (m, s) = loc_scale(r);
            c(fam, ft, &[m, s])
        }
        Fam::Pareto | Fam::Weibull => {
            let k = if near { nearv(r, &[1.0, 0.5, 1.0 / 3.0]).clamp(slo, shi) } else { logu(r, slo, shi) };
            c(fam, ft, &[logu(r, 1e-3, 1e3), k])
        }
        Fam::Frechet => {
            let (m, s) = loc_scale(r);
            let k = if near { nearv(r, &[1.0, 0.5, 1.0 / 3.0]).clamp(slo, shi) } else { logu(r, slo, shi) };
            c(fam, ft, &[m, s, k])
        }
        Fam::SkewNormal => {
            let (m, s) = loc_scale(r);
            let a = if near { nearv(r, &[1.0, -1.0]) } else if r.random_range(0..8) == 0 { 0.0 } else { uni(r, -1.0, 1.0) * logu(r, 1e-2, 100.0) };
            c(fam, ft, &[m, s, a])
        }
        Fam::InverseGaussian => {
            let mu = logu(r, 1e-3, 1e3);
            let ratio = logu(r, 1e-2, 1e2);
            // keep the ratio inside E after rounding to the float type
            let mu = ft.rnd(mu);
            let mut l = ft.rnd(mu * ratio);
            if l / mu < 1e-2 {
                l = ft.next_up(ft.rnd(mu * 1e-2));
            }
            if l / mu > 1e2 {
                l = ft.next_down(ft.rnd(mu * 1e2));
            }
            c(fam, ft, &[mu, l])
        }
        Fam::Nig => {
            let a = logu(r, 0.1, 100.0);
            let ratio = match r.random_range(0..4) {
                0 => 0.0,
                _ => uni(r, -0.95, 0.95),
            };
            let a = ft.rnd(a);
            c(fam, ft, &[a, a * ratio])
        }
        Fam::NormalMeanCv => {
            let m = uni(r, -1.0, 1.0) * 1e3;
            let m = if m == 0.0 { 1.0 } else { m };
            // P4: |mean|/sd <= 100 (f32) / 1e6 (f64)  <=>  cv >= 1/ratio
            c(fam, ft, &[m, logu(r, (1.0 / p4(ft)).max(1e-3), 10.0)])
        }
        Fam::LogNormalMeanCv => c(fam, ft, &[logu(r, 1e-2, 1e2), logu(r, 1e-2, 10.0)]),
        Fam::PertMean => {
            let a = uni(r, -1e2, 1e2);
            let range = logu(r, 0.5, 1e2);
            let sh = if r.random_range(0..4) == 0 { 4.0 } else { uni(r, 0.5, 50.0) };
            // mean such that the implied mode lies safely inside: mode = min + t range, t in [0.1, 0.9]
            let t = uni(r, 0.1, 0.9);
            let mode = a + t * range;
            let mean = (a + sh * mode + (a + range)) / (sh + 2.0);
            c(fam, ft, &[a, a + range, mean, sh])
        }
        Fam::Binomial => {
            let n = match r.random_range(0..4) {
                0 => r.random_range(0..=30u64),
                1 => r.random_range(0..=10_000u64),
                _ => (logu(r, 1.0, 4.6e18)) as u64,
            };
            let n = n.min(1u64 << 62);
            let p = match r.random_range(0..6) {
                0 if n > 0 => (10.0 / n as f64 * if near { nearv(r, &[1.0]) } else { uni(r, 0.5, 2.0) }).min(1.0),
                1 => logu(r, 1e-18, 1.0),
                2 => 1.0 - logu(r, 1e-16, 1.0),
                _ => r.random::<f64>(),
            };
            Cell::newi(fam, &[n], &[p.clamp(0.0, 1.0)])
        }
        Fam::Poisson => {
            let l = if near { nearv(r, &[12.0]) } else if r.random::<bool>() { logu(r, slo, 100.0) } else { logu(r, slo, shi) };
            c(fam, ft, &[l.clamp(slo, shi)])
        }
        Fam::Geometric => {
            let p = if near {
                nearv(r, &[2.0 / 3.0, 0.5, 1.0 - 0.5f64.sqrt()]).min(1.0)
            } else if r.random::<bool>() {
                logu(r, 1e-9, 1.0)
            } else {
                r.random::<f64>().max(1e-9)
            };
            Cell::newi(fam, &[], &[p])
        }
        Fam::Hypergeometric => {
            for _ in 0..64 {
                let nn = match r.random_range(0..3) {
                    0 => r.random_range(0..=200u64),
                    1 => r.random_range(0..=100_000u64),
                    _ => logu(r, 1.0, 1.0995e12) as u64,
                };
                let kk = if nn == 0 { 0 } else { r.random_range(0..=nn) };
                let n = if nn == 0 { 0 } else { r.random_range(0..=nn) };
                if hyper_cost(nn, kk, n) <= HYPER_COST_MAX {
                    return Cell::newi(fam, &[nn, kk, n], &[]);
                }
            }
            Cell::newi(fam, &[100, 30, 20], &[])
        }
        Fam::Zipf => {
            let nmax = if ft == Ft::F32 { 1048576.0 } else { 1e15 };
            let n = match r.random_range(0..3) {
                0 => r.random_range(1..=20u64) as f64,
                _ => logu(r, 1.0, nmax).floor(),
            };
            let s = if near { nearv(r, &[1.0]) } else if r.random_range(0..8) == 0 { 0.0 } else { uni(r, 0.0, 10.0) };
            c(fam, ft, &[n, s.clamp(0.0, 10.0)])
        }
        Fam::Zeta => c(fam, ft, &[logu(r, slo - 1.0, shi - 1.0) + 1.0]),
        _ => c(fam, ft, &[]),
    }
}

/// Class labels: which side of each internal switch a cell is on (for evidence histograms).
pub fn classes(cell: &Cell) -> Vec<String> {
    let p = &cell.p;
    let f = format!("{:?}", cell.fam);
    let side = |x: f64, t: f64| if x < t { "lt" } else if x == t { "eq" } else { "gt" };
    match cell.fam {
        Fam::Gamma => vec![format!("{f}:shape_{}_1", side(p[0], 1.0))],
        Fam::ChiSquared | Fam::StudentT => vec![format!("{f}:dof_{}_1", side(p[0], 1.0)), format!("{f}:dof_{}_2", side(p[0], 2.0))],
        Fam::FisherF => vec![format!("{f}:m_{}_2", side(p[0], 2.0)), format!("{f}:n_{}_2", side(p[1], 2.0)), format!("{f}:m_{}_n", side(p[0], p[1]))],
        Fam::Beta => vec![
            format!("{f}:{}", if p[0].min(p[1]) > 1.0 { "BB" } else { "BC" }),
            format!("{f}:a_{}_b", side(p[0], p[1])),
        ],
        Fam::Pert => vec![format!("{f}:mode_{}", if p[2] == p[0] { "min" } else if p[2] == p[1] { "max" } else { "interior" }), format!("{f}:shape_{}_0", side(p[3], 0.0))],
        Fam::Triangular => vec![format!("{f}:mode_{}", if p[0] == p[1] { "degenerate" } else if p[2] == p[0] { "min" } else if p[2] == p[1] { "max" } else { "interior" })],
        Fam::SkewNormal => vec![format!("{f}:shape_{}", if p[2] == 0.0 { "0" } else if p[2] == 1.0 { "+1" } else if p[2] == -1.0 { "-1" } else { "general" })],
        Fam::Normal | Fam::LogNormal => vec![format!("{f}:sd_{}_0", side(p[1], 0.0))],
        Fam::Binomial => {
            let (n, pp) = (cell.ip[0], p[0]);
            let q = if pp > 0.5 { 1.0 - pp } else { pp };
            let m = if pp == 0.0 || pp == 1.0 { "Constant" } else if (n as f64) * q < 10.0 { if 1.0 - q == 1.0 { "PoissonLimit" } else { "BINV" } } else { "BTPE" };
            vec![format!("{f}:{m}"), format!("{f}:flip_{}", pp > 0.5)]
        }
        Fam::Poisson => vec![format!("{f}:lambda_{}_12", side(p[0], 12.0))],
        Fam::Geometric => vec![format!("{f}:{}", if p[0] >= 2.0 / 3.0 { "trivial" } else if 1.0 - p[0] == 1.0 { "max" } else { "split" })],
        Fam::Hypergeometric => {
            let (nn, kk, n) = (cell.ip[0], cell.ip[1], cell.ip[2]);
            vec![
                format!("{f}:{}", if hyper_is_hin(nn, kk, n) { "HIN" } else { "H2PE" }),
                format!("{f}:K_{}_half", if kk > nn - kk { "gt" } else { "le" }),
                format!("{f}:n_{}_half", if n > nn / 2 { "gt" } else { "le" }),
                format!("{f}:N_{}", if nn % 2 == 0 { "even" } else { "odd" }),
            ]
        }
        Fam::Zipf => vec![format!("{f}:s_{}_1", side(p[1], 1.0))],
        _ => vec![format!("{f}")],
    }
}

/// Cells for the multi-output / weighted families (used by C03, C05, C14, C15).
pub fn extra_cells(seed: u64, per_kind: usize) -> Vec<Cell> {
    use crate::families::{ALIAS_INT, TREE_INT};
    let mut v = vec![];
    let mut r = BaseRng::from_env(crate::rng::hseed(&[seed, 0xE17A]));
    for fam in [Fam::UnitCircle, Fam::UnitDisc, Fam::UnitSphere, Fam::UnitBall] {
        for ft in [Ft::F32, Ft::F64] {
            v.push(Cell::new(fam, ft, &[]));
        }
    }
    for ft in [Ft::F32, Ft::F64] {
        for a in dirichlet_alphas(ft, &mut r, per_kind) {
            v.push(Cell::new(Fam::Dirichlet, ft, &a));
        }
    }
    let maxes: [(Fam, Fam, u128); 11] = [
        (ALIAS_INT[0], TREE_INT[0], u8::MAX as u128),
        (ALIAS_INT[1], TREE_INT[1], u16::MAX as u128),
        (ALIAS_INT[2], TREE_INT[2], u32::MAX as u128),
        (ALIAS_INT[3], TREE_INT[3], u64::MAX as u128),
        (ALIAS_INT[4], TREE_INT[4], u64::MAX as u128),
        (ALIAS_INT[5], TREE_INT[5], u64::MAX as u128),
        (ALIAS_INT[6], TREE_INT[6], i8::MAX as u128),
        (ALIAS_INT[7], TREE_INT[7], i16::MAX as u128),
        (ALIAS_INT[8], TREE_INT[8], i32::MAX as u128),
        (ALIAS_INT[9], TREE_INT[9], i64::MAX as u128),
        (ALIAS_INT[10], TREE_INT[10], i64::MAX as u128),
    ];
    for (af, tf, mx) in maxes {
        for k in 0..per_kind.max(3) {
            let len = match k {
                0 => 1,
                1 => 2,
                2 => 3,
                _ => r.random_range(1..=12usize),
            };
            let cap = (mx / len as u128) as u64;
            let ws: Vec<u64> = (0..len)
                .map(|_| match r.random_range(0..5) {
                    0 => 0,
                    1 => 1,
                    2 => cap,
                    _ => r.random_range(0..=cap.min(1000)),
                })
                .collect();
            let ws = if ws.iter().all(|&w| w == 0) { let mut w = ws; w[0] = 1; w } else { ws };
            v.push(Cell::newi(af, &ws, &[]));
            v.push(Cell::newi(tf, &ws, &[]));
        }
    }
    for ft in [Ft::F32, Ft::F64] {
        for k in 0..per_kind.max(3) {
            let len = match k {
                0 => 1,
                1 => 2,
                _ => r.random_range(2..=12usize),
            };
            let ws: Vec<f64> = (0..len)
                .map(|_| match r.random_range(0..5) {
                    0 => 0.0,
                    1 => 1.0,
                    _ => logu(&mut r, 1e-3, 1e3),
                })
                .collect();
            let ws = if ws.iter().all(|&w| w == 0.0) { let mut w = ws; w[0] = 1.0; w } else { ws };
            v.push(Cell::new(Fam::AliasF, ft, &ws));
            v.push(Cell::new(Fam::TreeF, ft, &ws));
        }
    }
    v
}

/// Dirichlet alpha vectors inside E by class (DESIGN C11).
/// number of fixed vectors at the head of `dirichlet_alphas` (they are run even inside a known-finding region)
pub const DIRICHLET_FIXED: usize = 19;

pub fn dirichlet_alphas(ft: Ft, r: &mut BaseRng, count: usize) -> Vec<Vec<f64>> {
    let (lo, hi) = if ft == Ft::F32 { (1e-2, 1e3) } else { (1e-3, 1e4) };
    let mut out: Vec<Vec<f64>> = vec![
        vec![1.0, 1.0],
        vec![0.05, 0.05, 0.05],
        vec![0.1, 0.1, 0.1, 0.1],
        vec![ft.next_up(0.1), 0.1, ft.next_down(0.1)],
        vec![ft.next_up(0.1), ft.next_up(0.1)],
        vec![0.5, 2.0, 7.0],
        vec![lo, hi],
        vec![lo, lo, hi, 1.0],
        vec![2.0; 8],
        // exactly at the switch with tiny companions (both methods must stay NaN-free)
        vec![0.1, 0.001_f64.max(lo)],
        vec![0.002_f64.max(lo), 0.1, 0.001_f64.max(lo)],
        // long vectors: odd / even lengths around the pairwise-summation sizes
        (0..33).map(|i| 0.5 + (i % 5) as f64).collect(),
        (0..45).map(|i| 0.3 + (i % 7) as f64 * 0.4).collect(),
        (0..63).map(|i| 1.0 + (i % 3) as f64).collect(),
        vec![1.5; 64],
        // long vectors on the Beta method (all entries <= 0.1): the reverse cumulative sums over > 32 entries
        vec![0.05; 34],
        (0..40).map(|i| 0.02 + (i % 5) as f64 * 0.02).collect(),
        vec![0.03; 48],
        vec![0.1; 64],
    ];
    debug_assert_eq!(out.len(), DIRICHLET_FIXED);
    for _ in 0..count {
        let len = if r.random_range(0..4) == 0 { r.random_range(2..=64usize) } else { r.random_range(2..=8usize) };
        let class = r.random_range(0..4);
        let a: Vec<f64> = (0..len)
            .map(|_| match class {
                0 => logu(r, lo, 0.1),
                1 => logu(r, 0.1001, hi),
                2 => logu(r, lo, hi),
                _ => pick(r, &[ft.next_down(0.1), 0.1, ft.next_up(0.1), 0.05, 0.2]),
            })
            .collect();
        out.push(a);
    }
    out.into_iter().map(|a| a.into_iter().map(|x| ft.rnd(x)).collect()).collect()
}
