use vcore::report::Ctx;
use vcore::*;

fn arg_after(args: &[String], key: &str) -> Option<String> {
    args.iter().position(|a| a == key).and_then(|i| args.get(i + 1).cloned())
}

const ASSUME_LAW: [&str; 4] = [
    "the PRNG (VERIF_PRNG, default ChaCha12) is an ideal bit source at the sample sizes used",
    "reference laws are correct to 1e-8 relative (validated against the scipy/mpmath golden table at every run)",
    "null model slacks of DESIGN 3.2 (output rounding 8 eps, uniform granularity, relative slack 16 eps kappa)",
    "float maths through the platform libm (num-traits/std is unified on by the harness, as in the pinned test suite)",
];

fn main() {
    let args: Vec<String> = std::env::args().collect();
    let cmd = args.get(1).map(|s| s.as_str()).unwrap_or("");
    match cmd {
        "golden" => {
            let (n, bad) = golden::check(&format!("{}/golden/ref.json", report::verif_dir()), args.iter().any(|a| a == "-v"));
            for b in &bad {
                println!("MISMATCH {b}");
            }
            println!("golden rows checked: {n}, mismatches: {}", bad.len());
            std::process::exit(if bad.is_empty() && n > 0 { 0 } else { 2 });
        }
        "hyperscan" => {
            let sp = vcore::ctors::SPECIAL_U64;
            for &a in &sp { for &b in &sp { for &c in &sp {
                let cost = families::hyper_cost(a,b,c);
                if cost > families::HYPER_COST_MAX { continue; }
                eprintln!("{} {} {} cost {}", a, b, c, cost);
                let t = std::time::Instant::now();
                let _ = report::catch(|| rand_distr::Hypergeometric::new(a,b,c).is_ok());
                if t.elapsed().as_secs_f64() > 0.5 { eprintln!("   SLOW {:?}", t.elapsed()); }
            }}}
        }
        "hyperwords" => {
            // development aid: words per call of Hypergeometric for huge N (H2PE set-up precision)
            report::quiet_panics();
            for e in 36..=63u32 {
                for half in [0u32, 1] {
                    let nn = if half == 0 { 1u64 << e } else { (1u64 << e) / 2 * 3 };
                    if nn > i64::MAX as u64 { continue; }
                    let mut line = format!("N=2^{e}{} ", if half == 1 { "*1.5" } else { "" });
                    for &(fk, fnn) in &[(0.5, 0.5), (0.4, 0.3), (0.1, 0.05), (1e-3, 0.3), (0.3, 1e-4)] {
                        let (kk, n) = ((nn as f64 * fk) as u64, (nn as f64 * fnn) as u64);
                        if families::hyper_cost(nn, kk, n) > families::HYPER_COST_MAX { line += "[cost] "; continue; }
                        let cell = families::Cell::newi(families::Fam::Hypergeometric, &[nn, kk, n], &[]);
                        let s = match report::catch(|| families::build(&cell)) { Ok(Ok(s)) => s, Ok(Err(e)) => { line += &format!("[{}] ", e.chars().take(12).collect::<String>()); continue; } Err(_) => { line += "[ctor panic] "; continue; } };
                        let (mut tot, mut over, mut pan) = (0u64, 0u64, 0u64);
                        for seed in 0..50u64 {
                            let mut rng = rng::VRng::from_env(seed);
                            rng.begin_call();
                            match report::catch(|| s.sample_v(&mut rng)) { Ok(_) => tot += rng.call_words, Err(m) => if m.starts_with("WORD") { over += 1 } else { pan += 1 } }
                        }
                        line += &format!("[{:.1}w o{} p{}] ", tot as f64 / (50 - over - pan).max(1) as f64, over, pan);
                    }
                    println!("{line}");
                }
            }
        }
        "selftest" => {
            // calibration of the statistical rule + golden agreement; `--fast` = 1 repeat at n = 1e6
            let fast = args.iter().any(|a| a == "--fast");
            let (n, bad) = golden::check(&format!("{}/golden/ref.json", report::verif_dir()), false);
            println!("golden rows checked: {n}, mismatches: {}", bad.len());
            let (cells, false_rej, planted, missed, msgs) = selftest::run(if fast { 1 } else { 40 }, 1_000_000);
            for m in &msgs { println!("{m}"); }
            let map_bad = selftest::uniform_int_mapping();
            for m in map_bad.iter().take(5) { println!("UNIFORM-INT MAPPING ASSUMPTION BROKEN: {m}"); }
            println!("rand uniform-integer word mapping (assumed by the exact enumerations of C08/C10): {}", if map_bad.is_empty() { "as assumed" } else { "NOT as assumed" });
            let missed = missed + map_bad.len() as u64;
            println!("selftest: synthetic cells {cells}, false rejections {false_rej}; planted defects {planted}, missed {missed}");
            std::process::exit(if bad.is_empty() && n > 0 && false_rej == 0 && missed == 0 { 0 } else { 2 });
        }
        "fuzz-replay" => {
            // verif fuzz-replay <target> <artifact file>: re-decode a libFuzzer artifact and re-check it with the plain binary
            let target = args.get(2).cloned().unwrap_or_default();
            let path = args.get(3).cloned().unwrap_or_default();
            let data = std::fs::read(&path).unwrap_or_else(|e| { eprintln!("cannot read {path}: {e}"); std::process::exit(2) });
            report::quiet_panics();
            match fuzzdec::run_target(&target, &data) {
                Some(msg) => {
                    let prop = match target.as_str() { "stream_case" => "C03", "ctor_case" => "C04", "tree_history" => "C09", "alias_vector" => "C08", "tree_sample" => "C10", _ => "C14" };
                    let prop = args.get(4).cloned().unwrap_or_else(|| prop.to_string());
                    let dst = format!("{}/replays/{}-fuzz-{:08x}.bin", report::verif_dir(), prop, rng::hstr(&msg) & 0xffff_ffff);
                    let _ = std::fs::create_dir_all(format!("{}/replays", report::verif_dir()));
                    let _ = std::fs::copy(&path, &dst);
                    println!("VIOLATION property={} replay={}", prop, dst);
                    println!("  detail: fuzz target {target}: {}", msg.chars().take(600).collect::<String>());
                    std::process::exit(1);
                }
                None => { println!("fuzz artifact {path}: property held on replay"); std::process::exit(0); }
            }
        }
        "replay" => {
            // verif replay <file>: deterministic re-execution of one case, bypassing proptest / libFuzzer
            let path = args.get(2).cloned().unwrap_or_default();
            let txt = std::fs::read_to_string(&path).unwrap_or_else(|e| { eprintln!("cannot read {path}: {e}"); std::process::exit(2) });
            let v: serde_json::Value = serde_json::from_str(&txt).unwrap_or_else(|e| { eprintln!("cannot parse {path}: {e}"); std::process::exit(2) });
            let prop = v["property"].as_str().unwrap_or("").to_string();
            let seed = v["seed"].as_u64().unwrap_or(0);
            report::quiet_panics();
            let mut ctx = Ctx::new(&prop, "quick", seed);
            ctx.strict = args.iter().any(|a| a == "--strict");
            let case = &v["case"];
            let ok = match case["kind"].as_str().unwrap_or("") {
                "law" => laws::replay(&ctx, case),
                "stream" | "stream_random" => if prop == "C05" { termination::replay(&ctx, case) } else { streams::replay(&ctx, case) },
                "exact" => exact::replay(&ctx, case),
                "ctor" => ctors::replay(&ctx, case),
                "tree_freq" | "alias_sample" => { eprintln!("frequency cases are re-run by the check itself (seeded)"); false }
                "alias" | "alias_stream" | "tree" | "tree_sample" => weighted::replay(&ctx, case),
                "affine" => affine::replay(&ctx, case),
                "dirichlet" | "geom" => multi::replay(&ctx, case),
                "schedule" => purity::replay(&ctx, case),
                "serde" => serde_rt::replay(&ctx, case),
                other => { eprintln!("no replay handler for case kind '{other}'"); false }
            };
            if !ok { std::process::exit(2); }
            // replay never rewrites evidence: print the verdict only
            let code = ctx.finish_replay(&path);
            std::process::exit(code);
        }
        "power" => {
            // verif power <C01|C02> [--tier quick|thorough] [--seed N] [--max K] : planted-defect audit of the law checks
            let prop = args.get(2).cloned().unwrap_or_else(|| "C01".into());
            let get = |k: &str| args.iter().position(|a| a == k).and_then(|i| args.get(i + 1)).cloned();
            let tier = get("--tier").unwrap_or_else(|| "quick".into());
            let seed: u64 = get("--seed").and_then(|s| s.parse().ok()).unwrap_or(0);
            let maxk: usize = get("--max").and_then(|s| s.parse().ok()).unwrap_or(40);
            report::quiet_panics();
            let t0 = std::time::Instant::now();
            let (table, weak) = vcore::power::run(&prop, &tier, seed, maxk);
            let dir = format!("{}/power", std::env::var("VERIF_DIR").unwrap_or_else(|_| "/verif".into()));
            let _ = std::fs::create_dir_all(&dir);
            let path = format!("{dir}/{prop}.{tier}.json");
            std::fs::write(&path, serde_json::to_string_pretty(&table).unwrap()).expect("write power table");
            for (k, r) in table["rows"].as_object().unwrap() {
                println!("{:28} cells={:4} nontrivial={:4} mass {}/{} scale {}/{} off1 {}/{} atom {}/{}", k, r["cells"], r["nontrivial"], r["mass_defect_detected"], r["mass_defect_run"], r["scale_defect_detected"], r["scale_defect_run"], r["off_by_one_detected"], r["off_by_one_run"], r["atom_defect_detected"], r["atom_defect_run"]);
            }
            println!("power {prop} {tier}: rows below 90%: {weak}; table {path}; wall={:.1}s", t0.elapsed().as_secs_f64());
            std::process::exit(if weak == 0 { 0 } else { 2 });
        }
        "c14-probe" => {
            // verif c14-probe '<cell json>' <seed> <k> : see purity::fresh_process_step
            let cell: families::Cell = serde_json::from_str(&args[2]).expect("cell json");
            let seed: u64 = args[3].parse().expect("seed");
            let k: usize = args[4].parse().expect("k");
            report::quiet_panics();
            println!("{}", vcore::purity::probe_line(&cell, seed, k));
        }
        "probe" => {
            // development aid: words consumed with a forced word, over seeds
            let cell: families::Cell = serde_json::from_str(&args[2]).expect("cell json");
            let pos: u64 = args[3].parse().unwrap();
            let word: u64 = u64::from_str_radix(args[4].trim_start_matches("0x"), 16).unwrap();
            report::quiet_panics();
            let s = families::build(&cell).expect("build");
            let mut hist = vec![];
            for seed in 0..200u64 {
                let mut rng = rng::VRng::from_env(seed);
                rng.force(pos, word);
                rng.begin_call();
                let r = report::catch(|| s.sample_v(&mut rng));
                hist.push((rng.call_words, r.map(|v| v.show()).unwrap_or_else(|e| e)));
            }
            hist.sort_by_key(|h| h.0);
            println!("min {:?}\nmedian {:?}\nmax {:?}", hist[0], hist[100], hist[199]);
            println!("over budget: {}", hist.iter().filter(|h| h.1.starts_with("WORD")).count());
        }
        "diag" => {
            // verif diag '<cell json>' n : per-edge table (development aid)
            let cell: families::Cell = serde_json::from_str(&args[2]).expect("cell json");
            let n: u64 = args.get(3).and_then(|s| s.parse().ok()).unwrap_or(4_000_000);
            let s = families::build(&cell).expect("build");
            let law = refdist::reflaw(&cell).expect("law");
            let sl = stats::Slack::for_cell(&cell, &law);
            let edges = stats::build_edges(&law, cell.ft, !cell.fam.int_only());
            let eb: Vec<stats::EdgeB> = edges.iter().map(|&x| stats::edge_bounds(&law, &sl, x)).collect();
            let h = stats::histogram(s.as_ref(), &edges, n, 12345);
            println!("cell {} n={} rho_rel={:e} rho_abs={:e} nan={} min={:e} max={:e}", cell.key(), n, sl.rho_rel, sl.rho_abs, h.nan, h.min, h.max);
            let mut cum = 0u64;
            for i in 0..eb.len() {
                cum += h.counts[i];
                let a = cum as f64 / n as f64;
                let z = (a - eb[i].p) / (eb[i].p * eb[i].q / n as f64).sqrt();
                println!("{:3} x={:<24e} p={:<12.6e} obs={:<12.6e} lo={:<12.6e} hi={:<12.6e} bin={:<9} z={:+.2}", i, eb[i].x, eb[i].p, a, eb[i].p_lo, eb[i].p_hi, h.counts[i], z);
            }
            for r in stats::run_tests(&eb, &h, &stats::TestOpts::default()) {
                println!("REJECT {:?}", r);
            }
        }
        "check" => {
            let id = args.get(2).cloned().unwrap_or_default();
            let tier = arg_after(&args, "--tier").unwrap_or_else(|| "quick".into());
            let seed: u64 = arg_after(&args, "--seed").and_then(|s| s.parse().ok()).unwrap_or(0);
            report::quiet_panics();
            let ctx = Ctx::new(&id, &tier, seed);
            let code = match id.as_str() {
                "C01" => {
                    let plans = laws::plans_c01(&ctx);
                    laws::run(&ctx, plans, 1_000_000);
                    ctx.finish("cell = (family, float type, parameter vector in E) sampled n times and tested with T1/T2/T3 against an independent reference CDF; grid cells straddle every switch point, random cells are drawn inside E (25% near a switch); non-trivial = n >= 1e6, >= 30 representable edges, every edge with p >= 100/n saw samples on both sides; distinct = distinct cell keys", &ASSUME_LAW, false)
                }
                "C02" => {
                    let plans = laws::plans_c02(&ctx);
                    laws::run(&ctx, plans, 100_000);
                    laws::standard_geometric_exact(&ctx);
                    ctx.finish("cell = (family, float type, parameter tuple) sampled n times; every integer with pmf >= 1e-4 is its own bin, rest grouped at quantile edges; exhaustive small sets (Binomial n<=30 x p-grid, Hypergeometric N<=40), switch grids, random tuples; non-trivial = >= 3 bins with expected count >= 1000 or a documented constant; distinct = distinct cell keys", &ASSUME_LAW, false)
                }
                "C03" => {
                    streams::run_c03(&ctx);
                    ctx.finish("case = (cell in E, base seed, one lattice word forced at stream position 0..7 [+ up to two region words]) -> one sample() call, checked for panic / support / NaN / undocumented infinity; plus the exhaustive sweep of all 2^24 high-bit patterns of the word at each consumed position for f32 samplers; non-trivial = the forced word was actually consumed by the call; cases are pairwise distinct by enumeration", &["the 64-bit-word-per-call stream model of DESIGN 3.1 (next_u32 = high half)", "E as fixed in DESIGN 4"], false)
                }
                "C13" => {
                    exact::run(&ctx);
                    ctx.finish("cell = (family in {Cauchy,Pareto,Weibull,Gumbel,Frechet,Triangular}, f32 parameters in E: grid, canonical location/scale for every shape, random); for each cell all 2^24 first-word high-bit patterns are pushed through sample(), the induced CDF is compared at every jump point with the documented CDF, and every output is checked against the support; evaluations = patterns; non-trivial = distinct cells found single-draw (each examines 2^24 distinct streams)", &["documented CDFs evaluated in f64 at the widened f32 parameters (validated against golden table)", "low 40 bits of the word are zero (the f32 draws ignore them)"], true)
                }
                "C06" => {
                    zig::run(&ctx);
                    ctx.finish("(a) every identity of the 4x257 table entries and 2 constants is evaluated (exhaustive): end points, monotonicity, f[i] = pdf(x[i]) to 1e-14, equal layer areas to 1e-8; (b) StandardNormal and Exp1 (f64 and f32 cast) sampled n times on bins whose edges are all abscissae (both signs), each layer interval split in 4, plus 8 conditional-quantile bins beyond R; T1/T2/T3 against exact Phi / exp, mirror-bin symmetry test (T4) for the normal; non-trivial = table identities + bins with expected count >= 1000", &ASSUME_LAW, false)
                }
                "C04" => {
                    ctors::run(&ctx);
                    weighted::run_c04_part(&ctx);
                    ctx.finish("case = one constructor call; (1) exhaustive cross product of the per-type special-value lattice for every constructor and float type, (2) proptest-random tuples (any bit pattern, biased to the lattice) with shrinking; oracle = three-valued table transcribed from the doc comments (MustErr(variants)/MustOk/Unspecified) + no panic + accessors bit-equal; non-trivial = tuple contains a lattice value", &["Appendix C of DESIGN.md is a faithful transcription of the doc comments", "Hypergeometric tuples with construction cost > 2^27 loop steps are skipped (counted)"], false)
                }
                "C08" => {
                    weighted::run_c08(&ctx);
                    ctx.finish("per weight type (u8..u128, usize, i8..i128, f32, f64): (1) exhaustive vectors of length <= 6 (floats <= 5) over {0,1,2,3,M-1,M,M+1} + negative/MIN/NaN/inf/-0: error spec in exact arithmetic and weights() reconstruction; (2) proptest-random vectors up to length 10^4 with magnitude mixes (shrinking); (3) sampled vectors: frequency test per index (KL-Chernoff, confirmed on 4n), zero-weight index never returned, boundary-lattice words on both draws; non-trivial = >= 2 distinct non-zero weights or an error class", &ASSUME_LAW, false)
                }
                "C09" => {
                    weighted::run_c09(&ctx);
                    ctx.finish("history = new(ws) followed by push/pop/update ops interpreted against a Vec model of exact values; after every step len/is_empty/is_valid/get(i) for all i/pop value/== fresh build (integers)/error spec/unchanged-on-error are compared; exhaustive: u8 and i8, all start vectors of length <= 3 x all histories to the tier depth over a 5-letter alphabet and indices 0..3; random: proptest histories of up to 400 ops for all 13 weight types with shrinking; non-trivial = history contains a level-opening push, an inner-node update, a pop across a level boundary or an error-returning op", &["indices are generated in range only (i mod len)", "float trees: get compared within 4 len eps sum; float total overflowing to +inf not judged"], false)
                }
                "C10" => {
                    weighted::run_c10(&ctx);
                    ctx.finish("state = tree reached by a generated history (fresh builds and up to 60 random mutations; lengths 1..10^4 incl. non-power-of-two shapes); per state: boundary-lattice words (incl. integer-range boundaries, top/bottom 4096 float mantissas) at positions 0..1 -> no panic / no zero-weight index / InsufficientNonZero iff empty or all-zero; frequency test vs current weights (confirmed on 4n); f32 trees: all 2^23 targets of the float draw enumerated and the induced law compared exactly; non-trivial = >= 2 non-zero weights after >= 1 mutation, or a zero-weight inner node", &ASSUME_LAW, false)
                }
                "C05" => {
                    termination::run(&ctx);
                    ctx.finish(termination::RULE, &termination::ASSUME, false)
                }
                "C07" => {
                    affine::run(&ctx);
                    ctx.finish("case = (base cell of a listed family, affine pair (a,b), stream): the base cell and the cell with transformed location/scale are sampled on identical (cloned) streams, random and with one boundary-lattice word; oracle: y' = a + b y within 8 ulp of the largest magnitude involved (log space for LogNormal), equal word counts; Normal/LogNormal bit-exact against mean + std_dev * StandardNormal and from_zscore(z) for generated z incl. +-0, +-inf, NaN, subnormals; branching samplers (InverseGaussian, Pert, Triangular) judged strictly for dyadic factors on lattice parameters, branch flips for other factors are counted, not judged; non-trivial = (a,b) != (0,1) and >= 1 word consumed", &["b ranges over 2^-8..2^8 (dyadic) and [1e-3,1e3]; a over +-1e3", "negative scale only for Normal (documented)"], false)
                }
                "C11" => {
                    multi::run_c11(&ctx);
                    ctx.finish("case = alpha vector in E (fixed class representatives + random vectors: all<=0.1, all>0.1, mixed, straddling 0.1 +- ulp, lengths 2..64) x float type; n samples per vector through sample_to_slice, every 64th also through sample() on a cloned stream (bit equality + word count); per sample: length, components in [0,1], no NaN, |sum-1| <= 4 len eps; law: marginals x_i ~ Beta(a_i, a_0-a_i) for i<8 and 8 random i, ratios x_i/(x_i+x_j) ~ Beta(a_i,a_j) for adjacent pairs, (first,last) and 8 random pairs, each by T1/T2/T3 with confirmation; evaluations = samples drawn; non-trivial = vector with len>=3 and non-equal alphas, or straddling 0.1", &ASSUME_LAW, false)
                }
                "C12" => {
                    multi::run_c12(&ctx);
                    ctx.finish("4 samplers x {f32,f64}: n points each; per point norm predicate (|norm-1| <= 8 eps circle/sphere, norm <= 1+4 eps disc/ball, no NaN); uniformity on product bins (circle 720 angle bins; disc r^2 x angle 32x32; sphere z x longitude 32x32; ball r^3 x z/r x longitude 16^3) and their 1-D marginals by per-bin KL-Chernoff and a global multinomial KL test, confirmed on 4n; plus every boundary-lattice word at stream positions 0..7 for the norm/NaN clause; evaluations = points + adversarial calls; non-trivial = bins with count >= 1000 + adversarial calls that consumed the word", &ASSUME_LAW, false)
                }
                "C14" => {
                    purity::run(&ctx);
                    ctx.finish("schedule = 1..6 distribution objects (any family incl. multi-output and weighted, parameters from the grids / E) and 1..199 steps over {sample on the shared RNG, sample on a private RNG, sample_iter().take(k), clone-and-sample, rebuild-from-parameters-and-sample}; oracle (metamorphic): every recorded call is replayed in isolation - fresh object, clone of the recorded RNG state, in a fresh thread and in reverse order - and must give the bit-identical result, word count and next 8 RNG words; clones and rebuilt values give identical samples; Debug / PartialEq of every object unchanged after the schedule; generated by proptest with shrinking; non-trivial = >= 2 objects interleaved on the shared RNG and >= 1 rejection-sampling family", &["hidden state is looked for through history-dependence of results, word counts and RNG state (thread-local state: fresh thread; process-global state: reverse replay order)"], false)
                }
                "C15" => {
                    serde_rt::run(&ctx);
                    ctx.finish("case = distribution value (every family x float type on the switch grids and random cells of E, weighted indices of lengths 1..300 for all 13 weight types); types implementing Serialize+DeserializeOwned are detected at compile time by autoref specialisation (capability table in evidence); two routes: serde_json Value (bit-exact floats) and text with float_roundtrip; oracle: round-tripped == original (PartialEq, else Debug), identical re-serialisation, 64 identical samples and word counts on cloned streams; non-trivial = value that round-trips (per internal-variant counters in classes)", &["feature set {std, serde}; self-describing format = JSON", "values with non-finite internal fields are outside E and skipped (counted)", "a text-route-only mismatch on an f32 value is classified as a format artefact (counted)"], false)
                }
                _ => {
                    eprintln!("unknown property {id}");
                    2
                }
            };
            std::process::exit(code);
        }
        _ => {
            eprintln!("usage: verif <golden|selftest|check|replay> ...");
            std::process::exit(2);
        }
    }
}
