use vcore::*;

fn main() {
    let args: Vec<String> = std::env::args().collect();
    let cmd = args.get(1).map(|s| s.as_str()).unwrap_or("");
    match cmd {
        "golden" => {
            let (n, bad) = golden::check("/verif/golden/ref.json", args.iter().any(|a| a == "-v"));
            for b in &bad {
                println!("MISMATCH {b}");
            }
            println!("golden rows checked: {n}, mismatches: {}", bad.len());
            std::process::exit(if bad.is_empty() { 0 } else { 2 });
        }
        _ => {
            eprintln!("usage: verif <golden|selftest|check|replay> ...");
            std::process::exit(2);
        }
    }
}
