pub mod rng;
pub mod families;
pub mod special;
pub mod refdist;
pub mod stats;
pub mod golden;
