//! C14: sampling is a pure function of distribution value and RNG stream (DESIGN §5 C14).
use crate::envelope::{extra_cells, grid, random_cell};
use crate::families::{build, Cell, Fam, Ft, Sampler, Val, CONTINUOUS, DISCRETE};
use crate::report::{catch, Ctx, Violation};
use crate::rng::{hseed, BaseRng, VRng};
use proptest::prelude::*;
use rand::Rng;
use serde::{Deserialize, Serialize};
use serde_json::{json, Value};
use std::sync::atomic::{AtomicU64, Ordering};

#[derive(Clone, Debug, PartialEq, Serialize, Deserialize)]
pub enum Action {
    SampleShared,
    SamplePrivate(u64),
    IterTake(u8),
    CloneAndSample,
    RebuildAndSample,
    /// `dst.clone_from(&objs[src])` (same concrete type only), then dst must behave like src
    CloneFrom(usize),
    /// multi-output types: sample_to_slice into a buffer holding junk must equal sample() on the same stream
    DirtySlice(u64),
}

#[derive(Clone, Debug, Serialize, Deserialize)]
pub struct Schedule {
    pub cells: Vec<Cell>,
    pub steps: Vec<(usize, Action)>,
    pub seed: u64,
}

struct Recorded {
    cell: Cell,
    obj: usize,
    before: VRng,
    k: usize,
    results: Vec<Val>,
    words: u64,
    shared: bool,
}

fn bits(v: &[Val]) -> Vec<Vec<u64>> {
    v.iter().map(|x| x.bits()).collect()
}

fn next8(r: &VRng) -> Vec<u64> {
    let mut c = r.clone();
    (0..8).map(|_| c.next_u64()).collect()
}

const REJECTION: [Fam; 14] = [
    Fam::StandardNormal, Fam::Normal, Fam::Gamma, Fam::Beta, Fam::Binomial, Fam::Poisson, Fam::Hypergeometric, Fam::Zipf,
    Fam::Zeta, Fam::UnitCircle, Fam::UnitBall, Fam::Geometric, Fam::Dirichlet, Fam::StudentT,
];

/// Does the call complete within the per-call word budget on a fresh object, in a fresh thread (empty
/// thread-local state), from the given RNG state? Some(words) if it does.
fn isolated_words(cell: &Cell, before: &VRng) -> Option<u64> {
    let (cell, mut r) = (cell.clone(), before.clone());
    std::thread::spawn(move || {
        crate::report::quiet_panics();
        let fresh = build(&cell).ok()?;
        r.begin_call();
        catch(|| fresh.sample_v(&mut r)).ok().map(|_| r.call_words)
    })
    .join()
    .ok()
    .flatten()
}

pub struct Outcome {
    pub nontrivial: bool,
    pub violation: Option<(String, String)>,
}

/// what the generated schedules exercised (evidence classes): steps per action kind, objects per family
static ACTION_COUNTS: [AtomicU64; 7] = [AtomicU64::new(0), AtomicU64::new(0), AtomicU64::new(0), AtomicU64::new(0), AtomicU64::new(0), AtomicU64::new(0), AtomicU64::new(0)];
static FAMILY_OBJECTS: std::sync::Mutex<std::collections::BTreeMap<String, u64>> = std::sync::Mutex::new(std::collections::BTreeMap::new());
static SAME_TYPE_SCHEDULES: AtomicU64 = AtomicU64::new(0);
static SIBLING_SCHEDULES: AtomicU64 = AtomicU64::new(0);

fn count_schedule(s: &Schedule) {
    for (_, a) in &s.steps {
        let k = match a {
            Action::SampleShared => 0,
            Action::SamplePrivate(_) => 1,
            Action::IterTake(_) => 2,
            Action::CloneAndSample => 3,
            Action::RebuildAndSample => 4,
            Action::CloneFrom(_) => 5,
            Action::DirtySlice(_) => 6,
        };
        ACTION_COUNTS[k].fetch_add(1, Ordering::Relaxed);
    }
    let mut same = false;
    for (i, c) in s.cells.iter().enumerate() {
        if s.cells[..i].iter().any(|d| d.fam == c.fam && d.ft == c.ft) {
            same = true;
        }
    }
    if same {
        SAME_TYPE_SCHEDULES.fetch_add(1, Ordering::Relaxed);
    }
    let mut m = FAMILY_OBJECTS.lock().unwrap();
    for c in &s.cells {
        *m.entry(c.fam.name()).or_insert(0) += 1;
    }
}

pub fn run_schedule(s: &Schedule) -> Outcome {
    count_schedule(s);
    let mut out = Outcome { nontrivial: false, violation: None };
    let mut cells_now: Vec<Cell> = s.cells.clone();
    let mut objs: Vec<Box<dyn Sampler>> = match s.cells.iter().map(build).collect::<Result<Vec<_>, _>>() {
        Ok(o) => o,
        Err(_) => return out,
    };
    if objs.is_empty() {
        return out;
    }
    let mut debug0: Vec<String> = objs.iter().map(|o| o.debug()).collect();
    let mut shared = VRng::from_env(s.seed);
    let mut rec: Vec<Recorded> = vec![];
    let mut shared_objs = std::collections::HashSet::new();
    let fail = |sym: &str, msg: String| Outcome { nontrivial: true, violation: Some((sym.to_string(), msg)) };
    for (stepno, (oi, act)) in s.steps.iter().enumerate() {
        let oi = oi % objs.len();
        if let Action::CloneFrom(src) = act {
            let src = src % objs.len();
            if src != oi {
                let srcbox = objs[src].clone_box();
                if objs[oi].clone_from_dyn(srcbox.as_ref()) {
                    cells_now[oi] = cells_now[src].clone();
                    debug0[oi] = debug0[src].clone();
                    let (mut r1, mut r2) = (shared.clone(), shared.clone());
                    for k in 0..8 {
                        match (catch(|| objs[src].sample_v(&mut r1)), catch(|| objs[oi].sample_v(&mut r2))) {
                            (Ok(a), Ok(b)) => {
                                if a.bits() != b.bits() || r1.pos != r2.pos {
                                    return fail("clone_from_differs", format!("step {stepno}: after dst.clone_from(&src) with src = {}, sample {k} differs: src {} vs dst {}", cells_now[src].key(), a.show(), b.show()));
                                }
                            }
                            _ => break,
                        }
                    }
                    if objs[oi].extra_repr() != objs[src].extra_repr() {
                        return fail("clone_from_differs", format!("step {stepno}: after dst.clone_from(&src) with src = {}: {:?} vs {:?}", cells_now[src].key(), objs[oi].extra_repr(), objs[src].extra_repr()));
                    }
                    if objs[oi].debug() != objs[src].debug() {
                        return fail("clone_from_differs", format!("step {stepno}: after dst.clone_from(&src) with src = {}: Debug differs: {} vs {}", cells_now[src].key(), objs[oi].debug(), objs[src].debug()));
                    }
                }
            }
            continue;
        }
        let o = &objs[oi];
        let key = cells_now[oi].key();
        match act {
            Action::SampleShared => {
                let before = shared.clone();
                let p0 = shared.pos;
                shared.begin_call();
                let r = match catch(|| o.sample_v(&mut shared)) {
                    Ok(v) => v,
                    Err(m) => {
                        // over the per-call word budget here but not in isolation: the call depends on history
                        if m.starts_with("WORD_BUDGET") {
                            if let Some(w) = isolated_words(&cells_now[oi], &before) {
                                return fail("history_dependent_words", format!("step {stepno}: {key}: the call drew more than 1e5 words in the schedule but returns after {w} words on a fresh object in a fresh thread from the same RNG state"));
                            }
                        }
                        return out; // other panics are C03's business
                    }
                };
                shared_objs.insert(oi);
                rec.push(Recorded { cell: cells_now[oi].clone(), obj: oi, before, k: 1, results: vec![r], words: shared.pos - p0, shared: true });
            }
            Action::SamplePrivate(sd) => {
                let mut pr = VRng::from_env(hseed(&[s.seed, *sd]));
                let before = pr.clone();
                pr.begin_call();
                let r = match catch(|| o.sample_v(&mut pr)) {
                    Ok(v) => v,
                    Err(m) => {
                        if m.starts_with("WORD_BUDGET") {
                            if let Some(w) = isolated_words(&cells_now[oi], &before) {
                                return fail("history_dependent_words", format!("step {stepno}: {key}: the call drew more than 1e5 words in the schedule but returns after {w} words on a fresh object in a fresh thread from the same RNG state"));
                            }
                        }
                        return out;
                    }
                };
                rec.push(Recorded { cell: cells_now[oi].clone(), obj: oi, before, k: 1, results: vec![r], words: pr.pos, shared: false });
            }
            Action::IterTake(k) => {
                let k = (*k as usize % 5) + 1;
                let before = shared.clone();
                let p0 = shared.pos;
                shared.begin_call();
                let rs = match catch(|| o.iter_take(&mut shared, k)) {
                    Ok(v) => v,
                    Err(m) => {
                        if m.starts_with("WORD_BUDGET") {
                            if let Some(w) = isolated_words(&cells_now[oi], &before) {
                                return fail("history_dependent_words", format!("step {stepno}: {key}: sample_iter().take({k}) drew more than 1e5 words in the schedule but the first call returns after {w} words on a fresh object in a fresh thread from the same RNG state"));
                            }
                        }
                        return out;
                    }
                };
                shared_objs.insert(oi);
                rec.push(Recorded { cell: cells_now[oi].clone(), obj: oi, before, k, results: rs, words: shared.pos - p0, shared: true });
            }
            Action::CloneAndSample => {
                let c = o.clone_box();
                let (mut r1, mut r2) = (shared.clone(), shared.clone());
                let (a, b) = match (catch(|| o.sample_v(&mut r1)), catch(|| c.sample_v(&mut r2))) {
                    (Ok(a), Ok(b)) => (a, b),
                    _ => return out,
                };
                if a.bits() != b.bits() || r1.pos != r2.pos {
                    return fail("clone_differs", format!("step {stepno}: {key}: a clone returned {} ({} words), the original {} ({} words) on the same stream", b.show(), r2.pos, a.show(), r1.pos));
                }
                if c.extra_repr() != o.extra_repr() {
                    return fail("clone_differs", format!("step {stepno}: {key}: clone differs in {:?} vs {:?}", c.extra_repr(), o.extra_repr()));
                }
                if c.debug() != o.debug() {
                    return fail("clone_differs", format!("step {stepno}: {key}: clone prints differently: {} vs {}", c.debug(), o.debug()));
                }
            }
            Action::CloneFrom(_) => {}
            Action::DirtySlice(junk) => {
                let (mut r1, mut r2) = (shared.clone(), shared.clone());
                if let Ok(Some(b)) = catch(|| o.sample_into_dirty(&mut r2, *junk)) {
                    if let Ok(a) = catch(|| o.sample_v(&mut r1)) {
                        if a.bits() != b.bits() || r1.pos != r2.pos {
                            return fail("depends_on_output_buffer", format!("step {stepno}: {key}: sample_to_slice into a used buffer returned {}, sample() on the same stream {}", b.show(), a.show()));
                        }
                    }
                }
            }
            Action::RebuildAndSample => {
                let c = match build(&cells_now[oi]) {
                    Ok(c) => c,
                    Err(_) => return out,
                };
                let (mut r1, mut r2) = (shared.clone(), shared.clone());
                let (a, b) = match (catch(|| o.sample_v(&mut r1)), catch(|| c.sample_v(&mut r2))) {
                    (Ok(a), Ok(b)) => (a, b),
                    _ => return out,
                };
                if a.bits() != b.bits() || r1.pos != r2.pos {
                    return fail("rebuilt_differs", format!("step {stepno}: {key}: a value constructed from equal parameters returned {} ({} words), the used object {} ({} words)", b.show(), r2.pos, a.show(), r1.pos));
                }
            }
        }
    }
    out.nontrivial = shared_objs.len() >= 2 && s.cells.iter().any(|c| REJECTION.contains(&c.fam));
    // sampling never changes the distribution
    for (i, o) in objs.iter().enumerate() {
        if o.debug() != debug0[i] {
            return fail("object_changed", format!("{}: Debug output changed after sampling: {} -> {}", cells_now[i].key(), debug0[i], o.debug()));
        }
        if let Ok(f) = build(&cells_now[i]) {
            if o.eq_dyn(f.as_ref()) == Some(false) {
                return fail("object_changed", format!("{}: no longer equal to a value built from the same parameters", cells_now[i].key()));
            }
        }
    }
    // isolated replays: fresh objects, cloned recorded streams, a fresh thread (empty thread-local state), reverse order
    let recs: Vec<(Cell, VRng, usize, Vec<Vec<u64>>, u64, Vec<u64>, bool)> = rec
        .iter()
        .map(|r| {
            let mut after = r.before.clone();
            // position after the call = before + words
            for _ in 0..r.words {
                after.next_u64();
            }
            let _ = r.obj;
            (r.cell.clone(), r.before.clone(), r.k, bits(&r.results), r.words, next8(&after), r.shared)
        })
        .collect();
    let handle = std::thread::spawn(move || -> Option<(String, String)> {
        crate::report::quiet_panics();
        for (cell, before, k, res_bits, words, n8, _shared) in recs.into_iter().rev() {
            let fresh = match build(&cell) {
                Ok(f) => f,
                Err(_) => continue,
            };
            let mut r = before.clone();
            let p0 = r.pos;
            let mut got = vec![];
            for _ in 0..k {
                r.begin_call();
                match catch(|| fresh.sample_v(&mut r)) {
                    Ok(v) => got.push(v.bits()),
                    Err(m) => {
                        if m.starts_with("WORD_BUDGET") {
                            return Some(("history_dependent_words".into(), format!("{}: the call recorded in the schedule returned after {} words; replayed in isolation (fresh object, fresh thread, same RNG state) it drew more than 1e5 words", cell.key(), words)));
                        }
                        return None;
                    }
                }
            }
            if got != res_bits {
                return Some(("history_dependent_result".into(), format!("{}: the call recorded in the schedule returned bits {:?}, the same call replayed in isolation (fresh object, same RNG state) returned {:?}", cell.key(), res_bits, got)));
            }
            if r.pos - p0 != words {
                return Some(("history_dependent_words".into(), format!("{}: {} words consumed in the schedule, {} when replayed in isolation", cell.key(), words, r.pos - p0)));
            }
            if next8(&r) != n8 {
                return Some(("rng_state".into(), format!("{}: RNG state after the call differs between schedule and isolated replay", cell.key())));
            }
        }
        None
    });
    if let Ok(Some((sym, msg))) = handle.join() {
        return fail(&sym, msg);
    }
    out
}

/// A cell of the same type whose parameters differ from `c` in exactly one bit-level detail: an integer
/// parameter plus or minus 2^k (k = 0..63), or a float parameter with one mantissa bit flipped (its magnitude
/// changes by less than a factor two, so the sibling stays where `c` is with respect to E). Such pairs collide
/// in a cache keyed on truncated, shifted, hashed or rounded parameters (seeded change R7-C14-1).
pub fn sibling(c: &Cell, sel: u64) -> Option<Cell> {
    let n = c.ip.len() + c.p.len();
    if n == 0 {
        return None;
    }
    sibling_at(c, (sel % n as u64) as usize, ((sel >> 8) % 64) as u32, (sel >> 16) & 1 == 1)
}

/// parameter j (integers first), bit k, `down`: subtract instead of add (integers only)
pub fn sibling_at(c: &Cell, j: usize, k: u32, down: bool) -> Option<Cell> {
    if j >= c.ip.len() + c.p.len() {
        return None;
    }
    let mut d = c.clone();
    if j < c.ip.len() {
        let v = c.ip[j];
        d.ip[j] = if !down { v.checked_add(1u64 << k)? } else { v.checked_sub(1u64 << k)? };
    } else {
        let j = j - c.ip.len();
        let v = c.p[j];
        let w = match c.ft {
            Ft::F64 => f64::from_bits(v.to_bits() ^ (1u64 << (k % 52))),
            Ft::F32 => f32::from_bits((v as f32).to_bits() ^ (1u32 << (k % 23))) as f64,
        };
        if !w.is_finite() || !v.is_finite() {
            return None;
        }
        d.p[j] = w;
    }
    if d == *c || (d.fam == Fam::Hypergeometric && d.ip[0] > 1 << 30) || !matches!(catch(|| build(&d).is_ok()), Ok(true)) {
        return None;
    }
    Some(d)
}

pub fn cell_pool(seed: u64) -> Vec<Cell> {
    let mut pool = vec![];
    for &fam in CONTINUOUS.iter().chain(DISCRETE.iter()) {
        let fts: &[Ft] = if fam.int_only() { &[Ft::F64] } else { &[Ft::F32, Ft::F64] };
        for &ft in fts {
            let g = grid(fam, ft);
            pool.extend(g.into_iter().step_by(3));
            let mut r = BaseRng::from_env(hseed(&[seed, fam as u64, ft as u64, 0xC14]));
            for _ in 0..4 {
                pool.push(random_cell(fam, ft, &mut r));
            }
        }
    }
    pool.extend(extra_cells(seed, 3));
    // pairs that share internal tables if anything were cached: complementary binomials, mirrored parameters
    for &(n, p) in &[(1000u64, 0.25), (1000, 0.75), (64, 0.375), (64, 0.625), (1 << 20, 0.5)] {
        pool.push(Cell::newi(Fam::Binomial, &[n], &[p]));
    }
    // rare-event cells: Dirichlet<f32> on the gamma path whose variates can all underflow in one draw
    pool.push(Cell::new(Fam::Dirichlet, Ft::F32, &[0.101, 0.002, 0.002]));
    pool.push(Cell::new(Fam::Dirichlet, Ft::F32, &[0.11, 0.001]));
    // pairs of the same family with different parameters in both method regimes
    for ft in [Ft::F32, Ft::F64] {
        for l in [13.0, 35.0, 400.0, 1000.0, 5.0] {
            pool.push(Cell::new(Fam::Poisson, ft, &[l]));
        }
    }
    // clone_from partners: same type and length, different totals
    for fam in crate::families::ALIAS_INT.iter().chain(crate::families::TREE_INT.iter()) {
        pool.push(Cell::newi(*fam, &[1, 2, 3, 4], &[]));
        pool.push(Cell::newi(*fam, &[10, 0, 5, 5], &[]));
    }
    for fam in [Fam::AliasF, Fam::TreeF] {
        for ft in [Ft::F32, Ft::F64] {
            pool.push(Cell::new(fam, ft, &[1.0, 2.0, 3.0, 4.0]));
            pool.push(Cell::new(fam, ft, &[10.0, 0.0, 5.0, 5.0]));
        }
    }
    pool.retain(|c| build(c).is_ok() && !(c.fam == Fam::Hypergeometric && c.ip[0] > 1 << 30));
    pool
}

fn report(ctx: &Ctx, s: &Schedule, sym: &str, msg: &str) {
    let fam = s.cells.first().map(|c| c.fam.name()).unwrap_or_default();
    ctx.violation(Violation {
        property: ctx.property.clone(),
        family: fam,
        float: "*".into(),
        symptom: sym.into(),
        trigger: "schedule".into(),
        what: msg.into(),
        case: json!({"kind": "schedule", "schedule": s}),
    });
}

pub fn run(ctx: &Ctx) {
    let pool = cell_pool(ctx.seed);
    ctx.set_extra("cell_pool", json!(pool.len()));
    let cases: u32 = if ctx.thorough() { 1_000_000 } else { 100_000 };
    let shards = 16u64;
    let np = pool.len();
    let evals = AtomicU64::new(0);
    let nontriv = AtomicU64::new(0);
    use rayon::prelude::*;
    (0..shards).into_par_iter().for_each(|sh| {
        let pool = &pool;
        let act = prop_oneof![
            5 => Just(Action::SampleShared),
            2 => any::<u64>().prop_map(Action::SamplePrivate),
            2 => any::<u8>().prop_map(Action::IterTake),
            1 => Just(Action::CloneAndSample),
            1 => Just(Action::RebuildAndSample),
            1 => (0usize..6).prop_map(Action::CloneFrom),
            1 => any::<u64>().prop_map(Action::DirtySlice),
        ];
        let strat = (proptest::collection::vec(0..(np as u32 * 64), 1..7), proptest::collection::vec((0usize..6, act), 1..200), any::<u64>())
            .prop_map(move |(idx, steps, seed)| {
                let mut cells: Vec<Cell> = idx.iter().map(|&i| pool[(i / 64) as usize % np].clone()).collect();
                // every third schedule: a second object of the same family/type as the first (clone_from partners)
                if seed % 3 == 0 && cells.len() >= 2 {
                    let f0 = (cells[0].fam, cells[0].ft);
                    let start = (idx[1] / 64) as usize % np;
                    if let Some(c) = (0..np).map(|k| &pool[(start + k) % np]).find(|c| (c.fam, c.ft) == f0 && c.p.len() == cells[0].p.len() && c.ip.len() == cells[0].ip.len()) {
                        cells[1] = c.clone();
                    }
                }
                // every third schedule: the second object is a bit-level sibling of the first
                if seed % 3 == 1 && cells.len() >= 2 {
                    if let Some(c) = sibling(&cells[0], seed / 3) {
                        cells[1] = c;
                        SIBLING_SCHEDULES.fetch_add(1, Ordering::Relaxed);
                    }
                }
                Schedule { cells, steps, seed }
            });
        let res = crate::pt::search(hseed(&[ctx.seed, sh, 0xC14]), cases / shards as u32, strat, |s| {
            let k = evals.fetch_add(1, Ordering::Relaxed);
            if k < 3 {
                ctx.sample(hseed(&[s.seed, k]), || json!({"objects": s.cells.iter().map(|c| c.key()).collect::<Vec<_>>(), "steps": s.steps.iter().take(30).map(|(i, a)| format!("{}:{:?}", i, a)).collect::<Vec<_>>(), "n_steps": s.steps.len()}));
            }
            let o = run_schedule(s);
            if o.nontrivial {
                nontriv.fetch_add(1, Ordering::Relaxed);
            }
            o.violation.map(|(a, b)| format!("{a}|{b}"))
        });
        if let Err((s, msg)) = res {
            let (sym, m) = msg.split_once('|').unwrap_or(("violation", &msg));
            report(ctx, &s, sym, m);
        }
        if sh == 0 {
            ctx.sample(sh, || json!({"example_schedule_shape": "1..6 objects from the cell pool, 1..199 steps over {SampleShared, SamplePrivate, IterTake(1..5), CloneAndSample, RebuildAndSample}"}));
        }
    });
    ctx.eval(evals.load(Ordering::Relaxed));
    ctx.nontrivial_add(nontriv.load(Ordering::Relaxed).min(cases as u64));
    for (k, nm) in ["SampleShared", "SamplePrivate", "IterTake", "CloneAndSample", "RebuildAndSample", "CloneFrom", "DirtySlice"].iter().enumerate() {
        ctx.class(&format!("steps:{nm}"), ACTION_COUNTS[k].load(Ordering::Relaxed));
    }
    ctx.class("schedules_with_two_objects_of_one_type", SAME_TYPE_SCHEDULES.load(Ordering::Relaxed));
    ctx.class("schedules_with_bit_level_sibling", SIBLING_SCHEDULES.load(Ordering::Relaxed));
    for (f, n) in FAMILY_OBJECTS.lock().unwrap().iter() {
        ctx.class(&format!("objects:{f}"), *n);
    }
    // deterministic part: complementary-parameter pairs interleaved on one stream
    let pairs = [
        (Cell::newi(Fam::Binomial, &[1000], &[0.25]), Cell::newi(Fam::Binomial, &[1000], &[0.75])),
        (Cell::new(Fam::Beta, Ft::F64, &[2.0, 3.0]), Cell::new(Fam::Beta, Ft::F64, &[3.0, 2.0])),
        (Cell::new(Fam::Normal, Ft::F64, &[0.0, 1.0]), Cell::new(Fam::Normal, Ft::F32, &[0.0, 1.0])),
        (Cell::new(Fam::Gamma, Ft::F64, &[0.5, 1.0]), Cell::new(Fam::Gamma, Ft::F64, &[1.5, 1.0])),
    ];
    // clone_from between values of the same type (every family that has two differently parameterised pool cells)
    let mut by_type: std::collections::BTreeMap<(Fam, Ft, usize, usize), Vec<Cell>> = std::collections::BTreeMap::new();
    for c in &pool {
        by_type.entry((c.fam, c.ft, c.p.len(), c.ip.len())).or_default().push(c.clone());
    }
    for (_, v) in by_type.iter() {
        if v.len() < 2 {
            continue;
        }
        for k in 0..(v.len() - 1).min(3) {
            let (a, b) = (v[k].clone(), v[v.len() - 1 - k].clone());
            if a == b {
                continue;
            }
            let steps = vec![(0, Action::SampleShared), (1, Action::SampleShared), (1, Action::CloneFrom(0)), (1, Action::SampleShared), (0, Action::SampleShared), (0, Action::CloneFrom(1)), (0, Action::IterTake(3)), (1, Action::CloneAndSample)];
            let s = Schedule { cells: vec![a.clone(), b], steps, seed: hseed(&[ctx.seed, k as u64, 0xC10F]) };
            ctx.eval(1);
            let o = run_schedule(&s);
            ctx.nontrivial(hseed(&[crate::rng::hstr(&a.key()), k as u64, 7]));
            if let Some((sym, msg)) = o.violation {
                report(ctx, &s, &sym, &msg);
            }
        }
    }
    // bit-level siblings: for a few cells of every type, every parameter x every bit (integer +-2^k, float
    // mantissa bit k): both objects built on one thread, then sampled alternately (each call is replayed on a
    // fresh object in a fresh thread by run_schedule)
    {
        use rayon::prelude::*;
        let mut sib_jobs: Vec<(Cell, Cell, u64)> = vec![];
        for (_, v) in by_type.iter() {
            let step = (v.len() / 4).max(1);
            for a in v.iter().step_by(step).take(4) {
                let n = a.ip.len() + a.p.len();
                for j in 0..n.min(4) {
                    let (bits, signs) = if j < a.ip.len() { (64, 2) } else if a.ft == Ft::F32 { (23, 1) } else { (52, 1) };
                    for k in 0..bits {
                        for sign in 0..signs {
                            if let Some(b) = sibling_at(a, j, k, sign == 1) {
                                sib_jobs.push((a.clone(), b, (j as u64) | ((k as u64) << 8) | (sign << 16)));
                            }
                        }
                    }
                }
            }
        }
        ctx.class("sibling_pairs_deterministic", sib_jobs.len() as u64);
        sib_jobs.par_iter().for_each(|(a, b, sel)| {
            let steps = vec![(0, Action::SampleShared), (1, Action::SampleShared), (1, Action::IterTake(3)), (0, Action::IterTake(3)), (1, Action::SamplePrivate(*sel)), (0, Action::SampleShared)];
            let s = Schedule { cells: vec![a.clone(), b.clone()], steps, seed: hseed(&[ctx.seed, *sel, 0x51B1]) };
            ctx.eval(1);
            let o = run_schedule(&s);
            ctx.nontrivial(hseed(&[crate::rng::hstr(&a.key()), crate::rng::hstr(&b.key()), 10]));
            if let Some((sym, msg)) = o.violation {
                report(ctx, &s, &sym, &msg);
            }
        });
    }
    // same-family pairs with run lengths: hidden per-thread / per-process state keyed on the parameters shows up
    // as history dependence when one object is sampled many times right after another one
    for (_, v) in by_type.iter() {
        if v.len() < 2 {
            continue;
        }
        for k in 0..(v.len() - 1).min(4) {
            let (a, b) = (v[k].clone(), v[v.len() - 1 - k].clone());
            if a == b {
                continue;
            }
            let mut steps: Vec<(usize, Action)> = vec![(0, Action::SampleShared), (0, Action::SampleShared)];
            steps.extend((0..80).map(|_| (1, Action::IterTake(4))));
            steps.extend((0..80).map(|_| (0, Action::IterTake(4))));
            steps.extend((0..3).map(|_| (1, Action::SampleShared)));
            let s = Schedule { cells: vec![a.clone(), b], steps, seed: hseed(&[ctx.seed, k as u64, 0x2A11]) };
            ctx.eval(1);
            let o = run_schedule(&s);
            ctx.nontrivial(hseed(&[crate::rng::hstr(&a.key()), k as u64, 8]));
            if let Some((sym, msg)) = o.violation {
                report(ctx, &s, &sym, &msg);
            }
        }
    }
    // same-type triples (a cache with two slots survives any pair): a, b, c in runs, then each again
    for (_, v) in by_type.iter() {
        if v.len() < 3 {
            continue;
        }
        for k in 0..(v.len() / 3).min(3) {
            let (a, b, c) = (v[k].clone(), v[v.len() / 2 + k % (v.len() / 2).max(1)].clone(), v[v.len() - 1 - k].clone());
            if a == b || b == c || a == c {
                continue;
            }
            for order in 0..2 {
                let cells = if order == 0 { vec![a.clone(), b.clone(), c.clone()] } else { vec![c.clone(), a.clone(), b.clone()] };
                let mut steps: Vec<(usize, Action)> = vec![];
                for round in 0..3 {
                    for obj in 0..3usize {
                        steps.extend((0..(if round == 0 { 24 } else { 6 })).map(|_| (obj, Action::IterTake(4))));
                    }
                }
                let s = Schedule { cells, steps, seed: hseed(&[ctx.seed, k as u64, order, 0x3A11]) };
                ctx.eval(1);
                let o = run_schedule(&s);
                ctx.nontrivial(hseed(&[crate::rng::hstr(&a.key()), k as u64, order, 9]));
                if let Some((sym, msg)) = o.violation {
                    report(ctx, &s, &sym, &msg);
                }
            }
        }
    }
    // endurance: many samples from one object never change it (Debug / PartialEq / clone equality)
    let m_end: u64 = if ctx.thorough() { 2_000_000 } else { 100_000 };
    {
        use rayon::prelude::*;
        pool.par_iter().for_each(|cell| {
            let o = match build(cell) {
                Ok(o) => o,
                Err(_) => return,
            };
            let before = o.debug();
            let clone0 = o.clone_box();
            let mut rng = VRng::from_env(hseed(&[ctx.seed, cell.hash64(), 0xE2D]));
            let mut done = 0u64;
            for i in 0..m_end {
                // the worker thread has sampled other pool cells before: a call that exhausts the per-call
                // word budget here but not on a fresh thread depends on that history
                let before = if i % 64 == 0 { Some(rng.clone()) } else { None };
                rng.begin_call();
                if let Err(m) = catch(|| o.sample_v(&mut rng)) {
                    if m.starts_with("WORD_BUDGET") {
                        let b = before.unwrap_or_else(|| {
                            // re-derive the state before this call: replay the stream up to here is not possible
                            // after the panic; use a fresh stream (the comparison is about termination, not values)
                            VRng::from_env(hseed(&[ctx.seed, cell.hash64(), i, 0xE2E]))
                        });
                        if let Some(w) = isolated_words(cell, &b) {
                            let s = Schedule { cells: vec![cell.clone()], steps: vec![], seed: 0 };
                            report(ctx, &s, "history_dependent_words", &format!("{}: sample {} of the endurance run (on a worker thread that sampled other objects before) drew more than 1e5 words; a fresh object in a fresh thread returns after {w} words", cell.key(), i));
                        }
                    }
                    break;
                }
                done += 1;
            }
            ctx.eval(done);
            ctx.class("endurance_samples", done);
            let s = Schedule { cells: vec![cell.clone()], steps: vec![], seed: 0 };
            if o.debug() != before {
                report(ctx, &s, "object_changed", &format!("{}: Debug output changed after {} samples: {} -> {}", cell.key(), done, before, o.debug()));
            } else if o.eq_dyn(clone0.as_ref()) == Some(false) {
                report(ctx, &s, "object_changed", &format!("{}: after {} samples the value no longer equals the clone taken before sampling", cell.key(), done));
            }
        });
    }
    for (a, b) in pairs.iter() {
        for order in 0..2 {
            let cells = if order == 0 { vec![a.clone(), b.clone()] } else { vec![b.clone(), a.clone()] };
            let steps: Vec<(usize, Action)> = (0..40).map(|i| (i % 2, if i % 7 == 3 { Action::IterTake(3) } else { Action::SampleShared })).collect();
            let s = Schedule { cells, steps, seed: hseed(&[ctx.seed, order, 0x9A12]) };
            ctx.eval(1);
            let o = run_schedule(&s);
            if o.nontrivial {
                ctx.nontrivial(hseed(&[crate::rng::hstr(&a.key()), order]));
            }
            if let Some((sym, msg)) = o.violation {
                report(ctx, &s, &sym, &msg);
            }
        }
    }
    fresh_process_step(ctx, &pool);
    alignment_step(ctx);
}

/// "a second value constructed from equal parameters produces the identical sample sequence": the same long
/// float weight vector is handed to WeightedAliasIndex::new in buffers at different addresses (malloc gives
/// 16-byte alignment; dummy allocations of varying size in between move the buffer across the 64-byte classes),
/// and the resulting values must be indistinguishable (Debug, weights(), samples). Decimal weights 0.1, 0.2, ...
/// have exact ties in the alias pairing, which amplify a last-bit difference of the sum into a different table.
fn alignment_step(ctx: &Ctx) {
    use rand_distr::weighted::WeightedAliasIndex;
    use rand_distr::Distribution;
    fn go<F: rand_distr::weighted::AliasableWeight + std::fmt::Debug + Copy + PartialEq>(ctx: &Ctx, name: &str, ws: &[F]) -> usize
    where
        WeightedAliasIndex<F>: std::fmt::Debug,
    {
        // up to four copies of the vector whose buffers fall into different classes modulo 64 bytes (buffers of an
        // alignment already seen are kept alive so that the allocator moves on)
        let mut copies: Vec<(usize, Vec<F>)> = vec![];
        let mut graveyard: Vec<Vec<F>> = vec![];
        let mut pads: Vec<Vec<u8>> = vec![];
        for k in 0..2048usize {
            let mut v: Vec<F> = Vec::with_capacity(ws.len());
            v.extend_from_slice(ws);
            let class = v.as_ptr() as usize % 64;
            if copies.iter().all(|c| c.0 != class) {
                copies.push((class, v));
                if copies.len() == 4 {
                    break;
                }
            } else {
                graveyard.push(v);
            }
            pads.push(vec![0u8; 8 + 16 * (k % 3)]);
        }
        let classes = copies.len();
        let mut first: Option<(usize, String, String, Vec<usize>)> = None;
        for (class, v) in copies {
            let d = match crate::report::catch(|| WeightedAliasIndex::<F>::new(v)) {
                Ok(Ok(d)) => d,
                _ => return classes,
            };
            let dbg = format!("{:?}", d);
            let wts = format!("{:?}", d.weights());
            let mut rng = VRng::from_env(hseed(&[ctx.seed, 0xA119]));
            let smp: Vec<usize> = (0..4000).map(|_| d.sample(&mut rng)).collect();
            ctx.eval(1);
            match &first {
                None => first = Some((class, dbg, wts, smp)),
                Some((c0, d0, w0, s0)) => {
                    if *d0 != dbg || *w0 != wts || *s0 != smp {
                        let ndiff = s0.iter().zip(smp.iter()).filter(|(a, b)| a != b).count();
                        let s = Schedule { cells: vec![], steps: vec![], seed: 0 };
                        report(ctx, &s, "rebuilt_differs", &format!("WeightedAliasIndex<{name}> built twice from equal weight vectors of length {} (first weights {:?}; buffers at addresses = {} and {} mod 64) differs: Debug equal {}, weights() equal {}, {} of 4000 samples differ on the same stream", ws.len(), &ws[..4.min(ws.len())], c0, class, *d0 == dbg, *w0 == wts, ndiff));
                        return classes;
                    }
                }
            }
        }
        classes
    }
    let mut max_classes = 0usize;
    for n in [33usize, 40, 50, 64, 80, 100, 200, 1000] {
        for pat in 0..4u32 {
            let w64: Vec<f64> = (0..n)
                .map(|i| match pat {
                    0 => ((i % 5) + 1) as f64 * 0.1,
                    1 => ((i % 10) + 1) as f64 * 0.1,
                    2 => ((i % 7) + 1) as f64 * 0.3,
                    _ => ((i * 37 % 100) + 1) as f64 * 0.01,
                })
                .collect();
            let w32: Vec<f32> = w64.iter().map(|&x| x as f32).collect();
            max_classes = max_classes.max(go::<f64>(ctx, "f64", &w64));
            max_classes = max_classes.max(go::<f32>(ctx, "f32", &w32));
        }
    }
    ctx.class("alias_rebuild_alignment_classes_seen(max)", max_classes as u64);
}

/// `verif c14-probe <cell json> <seed> <k>`: the first k samples of a fresh object in a fresh *process* (this call
/// is the first use of the library in the process), as bit patterns plus the RNG position after each
pub fn probe_line(cell: &Cell, seed: u64, k: usize) -> String {
    let mut out = vec![];
    if let Ok(o) = build(cell) {
        let mut rng = VRng::from_env(seed);
        for _ in 0..k {
            rng.begin_call();
            match catch(|| o.sample_v(&mut rng)) {
                Ok(v) => out.push(format!("{:?}@{}", v.bits(), rng.pos)),
                Err(_) => {
                    out.push("panic".into());
                    break;
                }
            }
        }
    }
    out.join(";")
}

/// process-global hidden state (a table or flag initialised by whichever object sampled first, a global
/// counter) is invisible to replays inside this process: every pool cell is therefore sampled here — late in the
/// run, after everything else — and in a fresh process where it is the first caller; the results must agree
fn fresh_process_step(ctx: &Ctx, pool: &[Cell]) {
    let exe = match std::env::current_exe() {
        Ok(e) => e,
        Err(_) => return,
    };
    use rayon::prelude::*;
    let k = 6usize;
    let bad: Vec<(Cell, String, String)> = pool
        .par_iter()
        .enumerate()
        .filter_map(|(i, cell)| {
            let seed = hseed(&[ctx.seed, cell.hash64(), i as u64, 0xF2E5]);
            let here = probe_line(cell, seed, k);
            let cj = serde_json::to_string(cell).ok()?;
            let outp = std::process::Command::new(&exe).args(["c14-probe", &cj, &seed.to_string(), &k.to_string()]).output().ok()?;
            if !outp.status.success() {
                return None;
            }
            let there = String::from_utf8_lossy(&outp.stdout).trim().to_string();
            ctx.eval(1);
            if there != here { Some((cell.clone(), here, there)) } else { None }
        })
        .collect();
    ctx.class("fresh_process_probes", pool.len() as u64);
    for (cell, here, there) in bad.into_iter().take(3) {
        let s = Schedule { cells: vec![cell.clone()], steps: vec![], seed: 0 };
        report(ctx, &s, "process_history_dependent_result", &format!("{}: the first samples of a fresh object differ between this process (after the whole run) and a fresh process in which it is the first caller: here {} / fresh process {}", cell.key(), here, there));
    }
}

pub fn replay(ctx: &Ctx, case: &Value) -> bool {
    if let Ok(s) = serde_json::from_value::<Schedule>(case["schedule"].clone()) {
        ctx.eval(1);
        if let Some((sym, msg)) = run_schedule(&s).violation {
            report(ctx, &s, &sym, &msg);
        }
        return true;
    }
    false
}
