//! C13: exact induced law of single-draw f32 samplers over all 2^24 uniform values (DESIGN §5 C13).
use crate::envelope::{grid, random_cell};
use crate::families::{build, Cell, Fam, Ft};
use crate::refdist::reflaw;
use crate::report::{catch, Ctx, Violation};
use crate::rng::{hseed, BaseRng, VRng};
use crate::support::check_val;
use rayon::prelude::*;
use serde_json::{json, Value};
use std::f64::consts::PI;

pub const SINGLE_DRAW: [Fam; 6] = [Fam::Cauchy, Fam::Pareto, Fam::Weibull, Fam::Gumbel, Fam::Frechet, Fam::Triangular];

/// documented density of the six families (f64, parameters widened exactly)
pub fn pdf(cell: &Cell, x: f64) -> f64 {
    let p = &cell.p;
    match cell.fam {
        Fam::Cauchy => {
            let z = (x - p[0]) / p[1];
            1.0 / (PI * p[1] * (1.0 + z * z))
        }
        Fam::Pareto => {
            if x < p[0] {
                0.0
            } else {
                (p[1].ln() + p[1] * p[0].ln() - (p[1] + 1.0) * x.ln()).exp()
            }
        }
        Fam::Weibull => {
            if x <= 0.0 {
                0.0
            } else {
                let z = x / p[0];
                (p[1] / p[0]) * z.powf(p[1] - 1.0) * (-z.powf(p[1])).exp()
            }
        }
        Fam::Gumbel => {
            let z = (x - p[0]) / p[1];
            (-(z + (-z).exp())).exp() / p[1]
        }
        Fam::Frechet => {
            let z = (x - p[0]) / p[1];
            if z <= 0.0 {
                0.0
            } else {
                (p[2] / p[1]) * z.powf(-1.0 - p[2]) * (-z.powf(-p[2])).exp()
            }
        }
        Fam::Triangular => {
            let (a, b, c) = (p[0], p[1], p[2]);
            if x < a || x > b || a == b {
                0.0
            } else if x < c {
                2.0 * (x - a) / ((b - a) * (c - a))
            } else if x == c {
                2.0 / (b - a)
            } else {
                2.0 * (b - x) / ((b - a) * (b - c))
            }
        }
        _ => f64::NAN,
    }
}

/// magnitude of the largest operand of the last addition / subtraction that forms the output x
/// (location + scale*t for Cauchy / Gumbel / Frechet; min + sqrt(..) or max - sqrt(..) for Triangular)
pub fn intermediate_magnitude(cell: &Cell, x: f64) -> f64 {
    let p = &cell.p;
    match cell.fam {
        Fam::Cauchy | Fam::Gumbel | Fam::Frechet => p[0].abs().max((x - p[0]).abs()),
        Fam::Triangular => {
            if x < p[2] {
                p[0].abs().max((x - p[0]).abs())
            } else {
                p[1].abs().max((p[1] - x).abs())
            }
        }
        _ => x.abs(),
    }
}

pub struct ExactOutcome {
    pub single_draw: bool,
    pub d: f64,
    pub bound: f64,
    pub sup_xf: f64,
    /// the same bound with |x| replaced by the largest magnitude the sampler's final subtraction/addition
    /// works at (|location| vs |x - location|, |max| vs |max - x|): delimits known finding C13-offset-cancellation
    pub bound_offset: f64,
    pub at: f64,
    pub distinct_outputs: usize,
    pub bad_outputs: Vec<(u64, String, String)>,
}

pub fn run_cell(cell: &Cell, seed: u64) -> Option<ExactOutcome> {
    let s = build(cell).ok()?;
    let law = reflaw(cell)?;
    // single-draw pre-check on ordinary streams
    let mut single = true;
    for k in 0..64u64 {
        let mut r = VRng::from_env(hseed(&[seed, k]));
        r.begin_call();
        let _ = catch(|| s.sample_v(&mut r));
        if r.call_words != 1 {
            single = false;
        }
    }
    if !single {
        return Some(ExactOutcome { single_draw: false, d: 0.0, bound: 0.0, sup_xf: 0.0, bound_offset: 0.0, at: 0.0, distinct_outputs: 0, bad_outputs: vec![] });
    }
    let base = VRng::mix(seed);
    let clones: Vec<(u64, Box<dyn crate::families::Sampler>)> = (0..64u64).map(|b| (b, s.clone_box())).collect();
    let parts: Vec<(Vec<f32>, Vec<(u64, String, String)>)> = clones
        .into_par_iter()
        .map(|(b, s)| {
            let mut out = Vec::with_capacity(1 << 18);
            let mut bad = vec![];
            for i in 0..(1u64 << 18) {
                let v = (b << 18) | i;
                let w = v << 40;
                let mut rng = base.clone();
                rng.force(0, w);
                rng.begin_call();
                match catch(|| s.sample_v(&mut rng)) {
                    Ok(val) => {
                        if let Some((sym, msg)) = check_val(cell, &val) {
                            if bad.len() < 4 {
                                bad.push((w, sym, msg));
                            }
                        }
                        let x = val.as_f64() as f32;
                        out.push(x);
                    }
                    Err(m) => {
                        if bad.len() < 4 {
                            bad.push((w, "panic".to_string(), format!("{}: panic: {}", cell.key(), m)));
                        }
                        out.push(f32::NAN);
                    }
                }
            }
            (out, bad)
        })
        .collect();
    let mut all: Vec<f32> = Vec::with_capacity(1 << 24);
    let mut bad = vec![];
    for (o, b) in parts {
        all.extend(o);
        bad.extend(b);
    }
    let total = all.len() as f64;
    let mut fin: Vec<f32> = all.into_iter().filter(|x| x.is_finite()).collect();
    fin.par_sort_unstable_by(|a, b| a.partial_cmp(b).unwrap());
    // jump points
    let mut d = 0.0f64;
    let mut at = f64::NAN;
    let mut sup_xf = 0.0f64;
    let mut sup_mf = 0.0f64;
    let mut distinct = 0usize;
    let mut i = 0usize;
    let n = fin.len();
    while i < n {
        let x = fin[i];
        let mut j = i;
        while j < n && fin[j] == x {
            j += 1;
        }
        distinct += 1;
        let xf = x as f64;
        let g_lo = i as f64 / total;
        let g_hi = j as f64 / total;
        let f = (law.cdf)(xf);
        let dd = (g_hi - f).abs().max((g_lo - f).abs());
        if dd > d {
            d = dd;
            at = xf;
        }
        let v = (xf * pdf(cell, xf)).abs();
        if v.is_finite() && v > sup_xf {
            sup_xf = v;
        }
        let v2 = (intermediate_magnitude(cell, xf) * pdf(cell, xf)).abs();
        if v2.is_finite() && v2 > sup_mf {
            sup_mf = v2;
        }
        i = j;
    }
    let bound = 2f64.powi(-24) * (1.5 + 8.0 * sup_xf);
    let bound_offset = 2f64.powi(-24) * (1.5 + 8.0 * sup_mf.max(sup_xf));
    Some(ExactOutcome { single_draw: true, d, bound, sup_xf, bound_offset, at, distinct_outputs: distinct, bad_outputs: bad })
}

pub fn cells(ctx: &Ctx) -> Vec<Cell> {
    let mut v = vec![];
    let k_rand = if ctx.thorough() { 480 } else { 20 };
    for &fam in SINGLE_DRAW.iter() {
        let g = grid(fam, Ft::F32);
        // every shape value also at the canonical location/scale, where the bound is tightest
        for c in &g {
            let mut p = c.p.clone();
            match fam {
                Fam::Cauchy | Fam::Gumbel => {
                    p[0] = 0.0;
                    p[1] = 1.0;
                }
                Fam::Pareto | Fam::Weibull => p[0] = 1.0,
                Fam::Frechet => {
                    p[0] = 0.0;
                    p[1] = 1.0;
                }
                _ => {}
            }
            v.push(Cell::new(fam, Ft::F32, &p));
        }
        v.extend(g);
        let mut r = BaseRng::from_env(hseed(&[ctx.seed, fam as u64, 0xC13]));
        for _ in 0..k_rand {
            v.push(random_cell(fam, Ft::F32, &mut r));
        }
    }
    // scale lattice at location 0 / min 0: an absolute tolerance or constant hidden in a sampler shows up when the
    // whole law is scaled far from 1 (the bound itself is scale-invariant there)
    for &sc in &[1e-6, 1e-4, 1e-3, 1e-2, 0.1, 10.0, 1e3, 1e6] {
        v.push(Cell::new(Fam::Cauchy, Ft::F32, &[0.0, sc]));
        v.push(Cell::new(Fam::Gumbel, Ft::F32, &[0.0, sc]));
        for &sh in &[0.5, 2.0, 7.0] {
            v.push(Cell::new(Fam::Pareto, Ft::F32, &[sc, sh]));
            v.push(Cell::new(Fam::Weibull, Ft::F32, &[sc, sh]));
            v.push(Cell::new(Fam::Frechet, Ft::F32, &[0.0, sc, sh]));
        }
        for &md in &[0.0, 0.3, 0.5, 1.0] {
            v.push(Cell::new(Fam::Triangular, Ft::F32, &[0.0, sc, sc * md]));
            v.push(Cell::new(Fam::Triangular, Ft::F32, &[-sc, sc, sc * (2.0 * md - 1.0)]));
        }
    }
    // cells of known finding C13-offset-cancellation (found by the thorough random cells): re-established on every run
    v.push(Cell::new(Fam::Frechet, Ft::F32, &[-7.220933532714844e1, 7.705432891845703e1, 7.609135437011719e1]));
    v.push(Cell::new(Fam::Frechet, Ft::F32, &[-4.883855895996094e2, 5.600755004882813e2, 2.7919662475585938e1]));
    v.push(Cell::new(Fam::Triangular, Ft::F32, &[-1.9048667907714844e1, 1.79744873046875e2, -1.9048667907714844e1]));
    let mut seen = std::collections::HashSet::new();
    v.retain(|c| seen.insert(c.key()));
    v
}

pub fn judge(ctx: &Ctx, cell: &Cell, out: &ExactOutcome) {
    ctx.eval(1 << 24);
    if cell.fam == Fam::Triangular && cell.p[0] == cell.p[1] {
        // degenerate point mass: no density, outside the statement ("CDF F with density f"); support still checked
        ctx.class("degenerate_point_mass_not_judged", 1);
        for (w, sym, msg) in out.bad_outputs.iter().take(2) {
            ctx.violation(Violation { property: ctx.property.clone(), family: cell.fam.name(), float: "f32".into(), symptom: sym.clone(),
                trigger: crate::streams::word_class(*w).to_string(), what: msg.clone(), case: json!({"kind": "exact", "cell": cell, "word": w}) });
        }
        return;
    }
    if !out.single_draw {
        ctx.class("not_single_draw", 1);
        return;
    }
    ctx.nontrivial(cell.hash64());
    ctx.class(&format!("cells:{}", cell.fam.name()), 1);
    ctx.sample(cell.hash64(), || json!({"cell": cell.key(), "D_over_bound": out.d / out.bound, "D": out.d, "bound": out.bound, "bound_offset_aware": out.bound_offset, "sup_xf": out.sup_xf, "distinct_outputs": out.distinct_outputs}));
    if out.d > out.bound {
        ctx.violation(Violation {
            property: ctx.property.clone(),
            family: cell.fam.name(),
            float: "f32".into(),
            symptom: "kolmogorov_bound".into(),
            // between the stated bound and the offset-aware bound: the class of known finding C13-offset-cancellation
            trigger: if out.d <= out.bound_offset { "offset_cancellation".to_string() } else { format!("cell:{}", cell.key()) },
            what: format!("{}: exact Kolmogorov distance {:.4e} at x={:e} exceeds 2^-24(1.5+8 sup|xf|) = {:.4e} (sup|xf|={:.3}; with |x| replaced by the largest operand of the final add/subtract the bound would be {:.4e})", cell.key(), out.d, out.at, out.bound, out.sup_xf, out.bound_offset),
            case: json!({"kind": "exact", "cell": cell}),
        });
    }
    for (w, sym, msg) in out.bad_outputs.iter().take(2) {
        ctx.violation(Violation {
            property: ctx.property.clone(),
            family: cell.fam.name(),
            float: "f32".into(),
            symptom: sym.clone(),
            trigger: crate::streams::word_class(*w).to_string(),
            what: msg.clone(),
            case: json!({"kind": "exact", "cell": cell, "word": w}),
        });
    }
}

pub fn run(ctx: &Ctx) {
    let cs = cells(ctx);
    ctx.set_extra("cells", json!(cs.len()));
    let ratios: Vec<f64> = cs
        .par_iter()
        .filter_map(|cell| {
            let out = run_cell(cell, hseed(&[ctx.seed, cell.hash64(), 0xE]))?;
            judge(ctx, cell, &out);
            if out.single_draw && !(cell.fam == Fam::Triangular && cell.p[0] == cell.p[1]) { Some(out.d / out.bound) } else { None }
        })
        .collect();
    let mx = ratios.iter().cloned().fold(0.0, f64::max);
    let mn = ratios.iter().cloned().fold(f64::INFINITY, f64::min);
    ctx.set_extra("D_over_bound_range", json!([mn, mx]));
}

pub fn replay(ctx: &Ctx, case: &Value) -> bool {
    let cell: Cell = match serde_json::from_value(case["cell"].clone()) {
        Ok(c) => c,
        Err(_) => return false,
    };
    if let Some(out) = run_cell(&cell, hseed(&[ctx.seed, cell.hash64(), 0xE])) {
        judge(ctx, &cell, &out);
    }
    true
}
