#![no_main]
use libfuzzer_sys::fuzz_target;

fuzz_target!(|data: &[u8]| {
    static INIT: std::sync::Once = std::sync::Once::new();
    INIT.call_once(vcore::report::quiet_panics);
    if let Some(msg) = vcore::fuzzdec::alias_vector(data) {
        // the semantic oracle lives in the target: a property violation is turned into a crash
        eprintln!("PROPERTY VIOLATION (alias_vector): {msg}");
        std::process::abort();
    }
});
