#![no_main]
use libfuzzer_sys::fuzz_target;

fuzz_target!(|data: &[u8]| {
    static INIT: std::sync::Once = std::sync::Once::new();
    INIT.call_once(vcore::report::quiet_panics);
    if let Some(msg) = vcore::fuzzdec::tree_sample(data) {
        // the semantic oracle lives in the target: a property violation is turned into a crash
        eprintln!("PROPERTY VIOLATION (tree_sample): {msg}");
        std::process::abort();
    }
});
