#!/usr/bin/env python3
"""Round 5: copies the confirmed seeded changes from /tmp/seed5 into /verif/seeded/R5-<id>/ with meta.json.
Detection results are read from /tmp/mut5/results.txt
(lines: '<ID> <N> check=<CHK> rc=.. violations=.. time=..s :: detail'); the line whose check is the change's own
property is the primary result, other lines are recorded as cross-detection."""
import json, os, shutil, re
DESC5 = {
 "C04-1": ("Geometric::new validates 1 - p instead of p", "a strictly negative p with |p| <= 2^-53 (negative subnormals, -MIN_POSITIVE, -1e-17) is accepted"),
 "C04-2": ("WeightedTreeIndex::get gains a 'leaf' fast path testing right_index >= len", "even number of weights: get(len/2 - 1) returns its weight plus the last weight (accessor clause); sampling unaffected"),
 "C04-3": ("Poisson::new checks !(lambda > 0) before is_infinite()", "lambda = NaN returns ShapeTooSmall (documented as lambda <= 0) instead of NonFinite: only the variant is wrong"),
 "C06-1": ("StandardNormal pdf closure returns the normalised density", "every wedge point rejected: 0.8 % of mass moved, -31 % in the bottom strips; fast path and tail bit-identical"),
 "C06-2": ("ZIG_EXP_X[0] set to r instead of v/f(r)", "table identities (monotone, equal areas) and Exp1 never returns a value above 7.697 (4.5e-4 of mass)"),
 "C06-3": ("chord 'squeeze' accepts wedge points under the chord (valid only where the density is concave)", "over-accepts where the density is convex: 1.06e-4 of mass for Exp1, 3.1e-5 for the normal, bottom strips +4-5 %"),
 "C07-1": ("Triangular: symmetric fast path with a second uniform when mode - min == max - mode exactly", "mode exactly central in one of base / image and an ulp off in the other: 2 words instead of 1 and an unrelated value"),
 "C07-2": ("LogNormal caches exp_mean = exp(mu); from_zscore returns exp_mean * exp(sigma z)", "|mu| beyond the exponent range of the type on its own (f32 mu > 88.7): inf / 0 / NaN where exp(mu + sigma z) is finite"),
 "C07-3": ("GammaSmallShape::sample retries up to 4 times when the scaled value is not > 0", "shape <= 0.1 (f32) / 0.01 (f64) with scale < 1 and a draw that underflows after scaling (1e-4..1e-2 per sample): extra words and another value"),
 "C12-1": ("UnitCircle skips the normalising division when 1 - sum < sqrt(eps)", "f32: norm up to 3.4e-4 short of 1 for 1 draw in 2900"),
 "C12-2": ("UnitSphere replaces 2 sqrt(1-s) by 2 - s for s < 1e-4", "f64: norm^2 = 1 + s^3 up to 1e-12 (2000 ulp) near the pole z = +1, probability 1e-4"),
 "C12-3": ("UnitBall redraws points 'closer than 0.01 to the centre' comparing the squared norm with 0.01", "no point with r < 0.1 is returned: 0.1 % of the volume (r^3 < 1e-3) missing"),
 "C13-1": ("Gumbel: the redraw loop for u = 1 becomes the reflection x = 1 - u", "the all-ones pattern (1 of 2^24) returns -inf"),
 "C13-2": ("Weibull: inv_shape == 0.5 uses the textbook Rayleigh formula scale sqrt(-2 ln x)", "shape exactly 2: scale convention off by sqrt 2 (Kolmogorov distance 0.25)"),
 "C13-3": ("Frechet redraw guard x < 1 becomes 1 - x > F::epsilon()", "the three largest uniforms are rejected instead of one: exact distance 3 * 2^-24, above the bound only for f32 shapes in (0.2, 0.5)"),
 "C14-1": ("ziggurat: the F_DIFF table 'precomputed once' in a static OnceLock inside the generic function (shared by StandardNormal and Exp1)", "whichever family samples first in the process fixes the table; the other family's wedge test is then wrong (KS 2.4e-3 / 6.7e-4); invisible inside one process"),
 "C14-2": ("hand-written Clone for WeightedTreeIndex rebuilds the subtotals from get(i)", "f32 / f64 trees after update histories: clone != original, Debug differs, one draw in ~1e6 differs"),
 "C14-3": ("alias pairwise_sum splits at the next 64-byte boundary of the weight buffer", "float weights, more than 32, with an exact tie in the pairing: two values built from equal vectors at different addresses differ in 5-20 % of draws"),
 "C15-1": ("WeightedTreeIndex deserialises through an untagged enum (also accepts a plain weight list)", "u128 / i128 trees fail to deserialise (serde's untagged buffering has no 128-bit integers)"),
 "C15-2": ("'JSON-safe' helper writes a non-finite Normal mean as None and reads None back as +inf", "mean exactly -inf (Normal::new(-inf, s), LogNormal::from_mean_cv(0, 0)): comes back as +inf"),
 "C15-3": ("WeightedAliasIndex serialised as weights() and rebuilt with new()", "float weights: the rebuilt table differs in the last bits (a third of decimal vectors); f32 samples differ at 5e-8..5e-6 per draw, ties at 15 %"),
}
res, cross = {}, {}
path = "/tmp/mut5/results.txt"
if os.path.exists(path):
    for l in open(path):
        m = re.match(r"R5-(C\d\d)-(\d) check=(C\d\d) tier=\w+ rc=(\d+) violations=(\d+) time=(\d+)s :: ?(.*)", l.strip())
        if m:
            key = f"{m.group(1)}-{m.group(2)}"
            d = {"check": m.group(3), "tier": "quick", "exit": int(m.group(4)), "violation_lines": int(m.group(5)), "wall_s_incl_build": int(m.group(6)), "first_detail": m.group(7)[:300]}
            if m.group(3) == m.group(1):
                res[key] = d          # the latest run of the own check wins
            else:
                cross.setdefault(key, {})[m.group(3)] = d
notes = json.load(open("/verif/scripts/r5_notes.json")) if os.path.exists("/verif/scripts/r5_notes.json") else {}
for key, (what, needs) in sorted(DESC5.items()):
    pid, n = key.split("-")
    src = f"/tmp/seed5/{pid}/out"
    dst = f"/verif/seeded/R5-{key}"
    if os.path.exists(f"{src}/patch{n}.diff"):
        os.makedirs(dst, exist_ok=True)
        shutil.copy(f"{src}/patch{n}.diff", f"{dst}/patch.diff")
        shutil.copy(f"{src}/demo{n}.rs", f"{dst}/demo.rs")
    elif not os.path.exists(dst):
        continue
    old = json.load(open(f"{dst}/meta.json")) if os.path.exists(f"{dst}/meta.json") else {}
    conf = open(f"/tmp/confirm/res5_{pid}_{n}.txt").read().strip() if os.path.exists(f"/tmp/confirm/res5_{pid}_{n}.txt") else old.get("confirmed_by_builder", {}).get("result", "not re-run")
    meta = {
        "id": f"R5-{key}", "round": 5, "property": pid, "what": what, "needs_to_manifest": needs,
        "origin": "fifth round: independent sub-agent that saw only the property text, a scratch worktree, a list of source files no earlier change had touched and the one-line list of earlier changes to avoid",
        "confirmed_by_builder": {"how": "scratch worktree of /repo HEAD: git apply patch.diff; cargo test --offline (full existing suite, no warnings); demo copied to tests/ and run with the patch (must fail) and without (must pass)" + (" [demo needs --features serde]" if pid == "C15" else ""), "result": conf},
        "detection": res.get(key, old.get("detection", {"note": "see DESIGN.md Appendix D"})),
    }
    cd = dict(old.get("cross_detection", {})); cd.update(cross.get(key, {}))
    if cd:
        meta["cross_detection"] = cd
    if key in notes:
        meta["detection_notes"] = notes[key]
    json.dump(meta, open(f"{dst}/meta.json", "w"), indent=1)
os.makedirs("/verif/seeded/notes", exist_ok=True)
for pid in sorted(set(k.split("-")[0] for k in DESC5)):
    if os.path.exists(f"/tmp/seed5/{pid}/out/NOTES.md"):
        shutil.copy(f"/tmp/seed5/{pid}/out/NOTES.md", f"/verif/seeded/notes/R5-{pid}-NOTES.md")
print("round-5 dirs:", len([d for d in os.listdir("/verif/seeded") if d.startswith("R5-")]))
