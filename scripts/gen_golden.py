#!/opt/veriftools/pyvenv/bin/python
"""Regenerates /verif/golden/ref.json (development-time only; not needed at run time).

Independent values of cdf/sf for every reference law in harness/src/refdist.rs, from scipy.stats
(boost/cephes) and, for the incomplete gamma/beta based families, mpmath at 50 digits.
`verif selftest` compares refdist against these rows.
"""
import json, math, itertools, sys
import numpy as np
import scipy.stats as st
import mpmath as mp

mp.mp.dps = 50
rows = []
PS = [1e-6, 1e-4, 1e-2, 0.2, 0.5, 0.8, 0.99, 1 - 1e-4, 1 - 1e-6]


def add(fam, p, ip, dist, discrete=False, mpf=None):
    xs = set()
    for q in PS:
        try:
            x = float(dist.ppf(q))
        except Exception:
            continue
        if math.isfinite(x):
            xs.add(x)
            if discrete:
                xs.add(x + 1)
                if x >= 1:
                    xs.add(x - 1)
    for x in sorted(xs):
        src = "scipy"
        if mpf is not None:
            try:
                c, s = mpf(x)
                c, s = float(c), float(s)
                src = "mpmath"
            except Exception as e:
                if fam in ("Poisson", "Hypergeometric"):
                    # scipy is not accurate enough here (lgamma cancellation); no independent value -> no row
                    continue
                c, s = float(dist.cdf(x)), float(dist.sf(x))
        else:
            c, s = float(dist.cdf(x)), float(dist.sf(x))
        if not (math.isfinite(c) and math.isfinite(s)):
            continue
        rows.append({"fam": fam, "p": [float(v) for v in p], "ip": [int(v) for v in ip], "x": x, "cdf": c, "sf": s,
                     "src": src})


def mp_gamma(k, th):
    def f(x):
        if x <= 0:
            return 0, 1
        return mp.gammainc(k, 0, mp.mpf(x) / th, regularized=True), mp.gammainc(k, mp.mpf(x) / th, mp.inf, regularized=True)
    return f


def mp_beta(a, b, lo=0.0, rng=1.0):
    def f(x):
        t = (mp.mpf(x) - lo) / rng
        if t <= 0:
            return 0, 1
        if t >= 1:
            return 1, 0
        return mp.betainc(a, b, 0, t, regularized=True), mp.betainc(a, b, t, 1, regularized=True)
    return f


def mp_t(nu):
    def f(t):
        t = mp.mpf(t)
        x = nu / (nu + t * t)
        tail = mp.betainc(mp.mpf(nu) / 2, mp.mpf(1) / 2, 0, x, regularized=True) / 2
        return (tail, 1 - tail) if t <= 0 else (1 - tail, tail)
    return f


def mp_f(m, n):
    def f(x):
        if x <= 0:
            return 0, 1
        x = mp.mpf(x)
        t = m * x / (m * x + n)
        u = n / (m * x + n)
        c = mp.betainc(mp.mpf(m) / 2, mp.mpf(n) / 2, 0, t, regularized=True)
        sfv = mp.betainc(mp.mpf(n) / 2, mp.mpf(m) / 2, 0, u, regularized=True)
        if c < sfv:
            return c, 1 - c
        return 1 - sfv, sfv
    return f


def mp_poisson(l):
    def f(k):
        k = int(math.floor(k))
        if k < 0:
            return 0, 1
        return mp.gammainc(k + 1, l, mp.inf, regularized=True), mp.gammainc(k + 1, 0, l, regularized=True)
    return f


def mp_hyper(N, K, n):
    lo = max(0, n + K - N)
    hi = min(n, K)
    mean = n * K / N
    sd = math.sqrt(n * (K / N) * (1 - K / N) * (N - n) / max(N - 1, 1))
    a = max(lo, int(mean - 14 * sd - 50))
    b = min(hi, int(mean + 14 * sd + 50))
    den = mp.binomial(N, n)
    pm = [mp.binomial(K, x) * mp.binomial(N - K, n - x) / den for x in range(a, b + 1)]
    cum = [mp.mpf(0)]
    for v in pm:
        cum.append(cum[-1] + v)
    tot = cum[-1]
    def f(x):
        x = int(math.floor(x))
        if x < a:
            return 0, 1
        if x >= b:
            return 1, 0
        c = cum[x - a + 1]
        return c, tot - c
    return f


# continuous
for mu, sd in [(0, 1), (1000, 1e-3), (-3, 7), (2, -3), (0, 1e3)]:
    add("Normal", [mu, sd], [], st.norm(mu, abs(sd)) if sd > 0 else st.norm(mu, abs(sd)))
for mu, sg in [(0, 1), (5, 3), (-5, 0.01), (1, 0.5), (2, -1.5)]:
    add("LogNormal", [mu, sg], [], st.lognorm(s=abs(sg), scale=math.exp(mu)))
for l in [1e-3, 1, 7.5, 1e3]:
    add("Exp", [l], [], st.expon(scale=1 / l))
for k in [0.06, 0.3, 1 / 3, 0.5, 0.999, 1, 1.001, 2, 7.3, 100, 1e3, 1e4, 1e5]:
    for th in [1, 1e-3, 1e3]:
        add("Gamma", [k, th], [], st.gamma(a=k, scale=th), mpf=mp_gamma(k, th) if k <= 1e4 else None)
for k in [0.12, 0.6, 1, 2, 3, 10, 2e3, 2e5]:
    add("ChiSquared", [k], [], st.chi2(k), mpf=mp_gamma(k / 2, 2) if k <= 2e4 else None)
for nu in [0.15, 0.6, 1, 2, 2.5, 10, 100, 1e4]:
    add("StudentT", [nu], [], st.t(nu), mpf=mp_t(nu))
for m, n in [(0.12, 0.12), (0.6, 3), (1, 1), (2, 2), (1, 2), (5, 7), (100, 3), (3, 100), (2e3, 2e3), (1e5, 1e5), (1e5, 0.5)]:
    add("FisherF", [m, n], [], st.f(m, n), mpf=mp_f(m, n) if max(m, n) <= 2e3 else None)
for a, b in [(0.05, 0.05), (0.3, 0.3), (0.5, 2), (1, 1), (1, 3), (2, 1), (1.0001, 0.9999), (2, 3), (30, 5), (1e3, 1e3), (1e4, 0.05), (1e4, 1e4), (0.3, 1e3)]:
    add("Beta", [a, b], [], st.beta(a, b), mpf=mp_beta(a, b) if max(a, b) <= 1e3 else None)
for mn, mx, mode, sh in [(0, 1, 0.5, 4), (-1000, 1000, -1000, 4), (1, 5, 5, 4), (0, 10, 3, 0), (2, 3, 2.1, 100), (-1, 1, 0.3, 1.5)]:
    rng = mx - mn
    v = 1 + sh * (mode - mn) / rng
    w = 1 + sh * (mx - mode) / rng
    add("Pert", [mn, mx, mode, sh], [], st.beta(v, w, loc=mn, scale=rng), mpf=mp_beta(v, w, mn, rng))
for mn, mx, mode in [(0, 1, 0.5), (0, 1, 0), (0, 1, 1), (-1000, 1000, 3), (1, 1.001, 1.0005)]:
    add("Triangular", [mn, mx, mode], [], st.triang(c=(mode - mn) / (mx - mn), loc=mn, scale=mx - mn))
for x0, g in [(0, 1), (1000, 1e-3), (-5, 1e3)]:
    add("Cauchy", [x0, g], [], st.cauchy(x0, g))
for xm, a in [(1, 1), (1e-3, 0.06), (1e3, 1e4), (2, 0.5), (1, 0.25), (3, 3)]:
    add("Pareto", [xm, a], [], st.pareto(b=a, scale=xm))
for l, k in [(1, 1), (1e-3, 0.06), (1e3, 1e3), (2, 0.5), (1, 1 / 3), (3, 3), (1, 0.25)]:
    add("Weibull", [l, k], [], st.weibull_min(c=k, scale=l))
for mu, b in [(0, 1), (1000, 1e-3), (-1000, 1e3), (3, 2)]:
    add("Gumbel", [mu, b], [], st.gumbel_r(mu, b))
for mu, s, a in [(0, 1, 1), (1000, 1e-3, 0.06), (-1000, 1e3, 1e3), (3, 2, 0.5), (0, 1, 1 / 3), (0, 1, 0.25), (1, 2, 5)]:
    add("Frechet", [mu, s, a], [], st.invweibull(c=a, loc=mu, scale=s))
for xi, om, al in [(0, 1, 0), (0, 1, 1), (0, 1, -1), (0, 1, 0.5), (3, 2, 5), (-1000, 1e-3, -100), (1000, 1e3, 100), (0, 1, 1.0000001), (0, 1, -3)]:
    add("SkewNormal", [xi, om, al], [], st.skewnorm(a=al, loc=xi, scale=om))
for mu, l in [(1, 1), (1, 0.01), (1, 100), (1e-3, 1e-3), (1e3, 1e5), (1e3, 10), (2, 3)]:
    add("InverseGaussian", [mu, l], [], st.invgauss(mu=mu / l, scale=l))
for a, b in [(1, 0), (0.1, 0), (0.1, 0.095), (0.1, -0.095), (100, 0), (100, 95), (100, -95), (2, 1), (5, -3)]:
    add("Nig", [a, b], [], st.norminvgauss(a=a, b=b))
# discrete
for n, p in [(1, 0.5), (5, 0.1), (30, 0.49), (30, 0.99), (100, 0.05), (100, 0.2), (1000, 0.5), (10**6, 1e-6), (10**6, 0.3), (2**40, 0.5), (2**40, 1e-11), (10**9, 1 - 1e-3)]:
    add("Binomial", [p], [n], st.binom(n, p), discrete=True)
for l in [1e-3, 0.5, 1, 5, 11.99, 12, 12.01, 50, 1000, 1e6, 1e9]:
    add("Poisson", [l], [], st.poisson(l), discrete=True, mpf=mp_poisson(l))
for p in [1e-9, 1e-3, 0.1, 0.29289321881345254, 0.5, 2 / 3, 0.9, 0.999]:
    add("Geometric", [p], [], st.geom(p, loc=-1), discrete=True)
for N, K, n in [(10, 5, 5), (40, 13, 27), (40, 39, 20), (100, 50, 50), (1000, 500, 100), (10**6, 3 * 10**5, 10**5), (10**6, 10, 5 * 10**5), (2**30, 2**29, 2**20), (10**5, 99990, 50000)]:
    add("Hypergeometric", [], [N, K, n], st.hypergeom(M=N, n=K, N=n), discrete=True, mpf=mp_hyper(N, K, n))

# Zipf / Zeta via mpmath directly
def zipf_rows(n, s):
    if math.isinf(n):
        total = mp.zeta(s)
    else:
        total = mp.nsum(lambda k: mp.mpf(k) ** (-s), [1, n]) if n <= 10**5 else (mp.zeta(s) - mp.zeta(s, n + 1) if s > 1 else None)
        if total is None:
            # s <= 1: Euler-Maclaurin through the Hurwitz zeta analytic continuation
            total = mp.zeta(s, 1) - mp.zeta(s, n + 1) if s != 1 else mp.harmonic(n)
    ks = [1, 2, 3, 10, 100, 1000, 10**4, 10**6, 10**9]
    for k in ks:
        if k > n:
            continue
        if s > 1:
            head = mp.zeta(s) - mp.zeta(s, k + 1)
        elif s == 1:
            head = mp.harmonic(k)
        else:
            head = mp.zeta(s, 1) - mp.zeta(s, k + 1)
        c = head / total
        sfv = 1 - c
        fam = "Zeta" if math.isinf(n) else "Zipf"
        p = [s] if math.isinf(n) else [float(n), s]
        rows.append({"fam": fam, "p": p, "ip": [], "x": float(k), "cdf": float(c), "sf": float(sfv), "src": "mpmath"})

for n, s in [(10, 0), (10, 1), (10, 2), (1000, 0.5), (10**6, 1), (2**20, 0.999), (2**20, 1.001), (10**15, 1.5), (10**15, 0.5), (10**15, 10), (3, 7), (10**9, 1)]:
    zipf_rows(n, s)
for s in [1.01, 1.05, 1.1, 1.5, 2, 3, 10, 50]:
    zipf_rows(math.inf, s)

json.dump(rows, open("/verif/golden/ref.json", "w"), indent=0)
print(len(rows), "rows")
