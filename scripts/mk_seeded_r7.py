#!/usr/bin/env python3
"""Round 7: copies the confirmed seeded changes from /tmp/seed7 into /verif/seeded/R7-<id>/ with meta.json.
Detection results are read from /tmp/mut7/results.txt
(lines: '<ID> <N> check=<CHK> rc=.. violations=.. time=..s :: detail'); the line whose check is the change's own
property is the primary result, other lines are recorded as cross-detection."""
import json, os, shutil, re
DESC7 = {
 "C04-1": ("Zipf::new IllDefined guard moved into the s != 1 arm and written as s < 1", "only n = +inf with s exactly 1 (f32 and f64): accepted instead of Err(IllDefined)"),
 "C04-2": ("PertBuilder::with_mode: Beta::new(v, w).map_err(RangeTooSmall) replaced by expect()", "NaN beta parameters: shape = inf with the mode at min or max (inf * 0), or max - min overflowing (-MAX..MAX): constructor panics"),
 "C06-1": ("normal tail sampler offsets the tail excess from ZIG_NORM_X[0] (3.9108) instead of ZIG_NORM_R (3.6542)", "only the 2.58e-4 of draws that reach the tail: (3.654, 3.911) empty on both sides, 8.3e-5 of mass per sign pushed beyond 3.911; Kolmogorov distance 8.3e-5"),
 "C06-2": ("ziggurat(): layer index and table look-ups hoisted out of the rejection loop (same layer retried after a wedge rejection)", "only draws whose first trial is a wedge rejection (0.67 % normal, 1.1 % Exp1): max CDF error 2.0e-3 normal, 3.8e-3 Exp1"),
 "C12-1": ("UnitCircle/UnitSphere share a sample_open_disc helper with a guard sum > sqrt(eps)", "f32 UnitSphere only: the cap z > 1 - 6.9e-4 (mass 3.45e-4) is never produced; f64 hole 1.5e-8"),
 "C12-2": ("UnitSphere rejection test sum >= 1 relaxed to sum > 1 + eps", "f32 only, 8.5e-8 per sample: sum == 1 + eps accepted, sqrt(1 - sum) = NaN: [NaN, NaN, -1.0000002]"),
 "C07-1": ("Frechet::sample fast path for shape == 1 returns scale / y without the location", "shape exactly 1.0 and location != 0 (f32 and f64): every draw off by location; word count unchanged"),
 "C07-2": ("Triangular::sample 'degenerate support' guard: range < F::epsilon() (absolute) returns the mode", "max - min below the absolute epsilon (f32 scales < 1.2e-7, f64 < 2.2e-16): every sample collapses to the mode"),
 "C13-1": ("Pareto 'skip powf near u = 1' shortcut adds (1-u) * inv_neg_shape with the wrong sign", "f32 (threshold sqrt(eps) = 3.45e-4; f64 1.5e-8): u within 3.45e-4 min(1, shape) of 1: outputs up to 0.034 % below scale, K = 3.45e-4"),
 "C13-2": ("Cauchy argument reduction for x within sqrt(eps) of 1 evaluates tan(pi (1-x)) without the minus sign", "f32: 3.45e-4 of the mass lands just above instead of just below the median; /X - median/ law unchanged"),
 "C14-1": ("Hypergeometric::new memoises (initial_p, initial_x) in a one-entry thread_local keyed n1 / k << 21 / n2 << 42 (high bits of n2 shifted out)", "inverse-transform method, n1 and k < 2^21, two constructions on one thread whose populations differ by a multiple of 2^22"),
 "C14-2": ("Zipf::sample reads x^-s for x <= 16 from a lazily filled thread_local table that new() re-tags but sample() does not check", "two live Zipf objects with different s on one thread, both constructed before the stale one is sampled, the other sampled in between"),
 "C15-1": ("WeightedAliasIndex fields moved into a private AliasTable marked serde(flatten)", "W = u128 / i128 only: the serialised document can no longer be deserialised (serde's flatten buffer has no 128-bit support)"),
 "C15-2": ("Gumbel skips location == 0 and /scale - 1/ < eps when serialising (serde default + skip_serializing_if)", "scale exactly the float just below 1 (0.9999999999999999 / 0.99999994f32): comes back as 1.0"),
}
res, cross = {}, {}
path = "/tmp/mut7/results.txt"
if os.path.exists(path):
    for l in open(path):
        m = re.match(r"R7-(C\d\d)-(\d) check=(C\d\d) tier=\w+ rc=(\d+) violations=(\d+) time=(\d+)s :: ?(.*)", l.strip())
        if m:
            key = f"{m.group(1)}-{m.group(2)}"
            d = {"check": m.group(3), "tier": "quick", "exit": int(m.group(4)), "violation_lines": int(m.group(5)), "wall_s_incl_build": int(m.group(6)), "first_detail": m.group(7)[:300]}
            if m.group(3) == m.group(1):
                res[key] = d          # the latest run of the own check wins
            else:
                cross.setdefault(key, {})[m.group(3)] = d
notes = json.load(open("/verif/scripts/r7_notes.json")) if os.path.exists("/verif/scripts/r7_notes.json") else {}
for key, (what, needs) in sorted(DESC7.items()):
    pid, n = key.split("-")
    src = f"/tmp/seed7/{pid}/out"
    dst = f"/verif/seeded/R7-{key}"
    if os.path.exists(f"{src}/patch{n}.diff") and os.path.exists(f"{src}/demo{n}.rs"):
        os.makedirs(dst, exist_ok=True)
        shutil.copy(f"{src}/patch{n}.diff", f"{dst}/patch.diff")
        shutil.copy(f"{src}/demo{n}.rs", f"{dst}/demo.rs")
    elif not os.path.exists(dst):
        continue
    old = json.load(open(f"{dst}/meta.json")) if os.path.exists(f"{dst}/meta.json") else {}
    conf = open(f"/tmp/confirm/res7_{pid}_{n}.txt").read().strip() if os.path.exists(f"/tmp/confirm/res7_{pid}_{n}.txt") else old.get("confirmed_by_builder", {}).get("result", "not re-run")
    meta = {
        "id": f"R7-{key}", "round": 7, "property": pid, "what": what, "needs_to_manifest": needs,
        "origin": "seventh round: independent sub-agent that saw only the property text, a scratch worktree, a list of source files no earlier change had touched and the one-line list of earlier changes to avoid",
        "confirmed_by_builder": {"how": "scratch worktree of /repo HEAD: git apply patch.diff; cargo test --offline (full existing suite, no warnings); demo copied to tests/ and run with the patch (must fail) and without (must pass)" + (" [demo needs --features serde]" if pid == "C15" else ""), "result": conf},
        "detection": res.get(key, old.get("detection", {"note": "see DESIGN.md Appendix D"})),
    }
    cd = dict(old.get("cross_detection", {})); cd.update(cross.get(key, {}))
    if cd:
        meta["cross_detection"] = cd
    if key in notes:
        meta["detection_notes"] = notes[key]
    json.dump(meta, open(f"{dst}/meta.json", "w"), indent=1)
os.makedirs("/verif/seeded/notes", exist_ok=True)
for pid in sorted(set(k.split("-")[0] for k in DESC7)):
    if os.path.exists(f"/tmp/seed7/{pid}/out/NOTES.md"):
        shutil.copy(f"/tmp/seed7/{pid}/out/NOTES.md", f"/verif/seeded/notes/R7-{pid}-NOTES.md")
print("round-7 dirs:", len([d for d in os.listdir("/verif/seeded") if d.startswith("R7-")]))
