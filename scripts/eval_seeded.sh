#!/bin/bash
# Evaluate seeded changes against the checks: for each job  <seeded-id>[:CHECK[:TIER]]
#   git -C /repo apply seeded/<id>/patch.diff ; scripts/check.sh CHECK TIER ; git -C /repo checkout -- .
# CHECK defaults to the change's own property, TIER to quick. Results are appended to $OUT/results.txt
# (default OUT=/tmp/muteval). /repo must be clean; do not build in harness/ while this runs.
HERE="$(cd "$(dirname "$0")/.." && pwd)"
OUT=${OUT:-/tmp/muteval}; mkdir -p "$OUT"
cd "$HERE"
if [ -n "$(git -C /repo status --porcelain)" ]; then echo "/repo is not clean" >&2; exit 2; fi
for job in "$@"; do
  IFS=: read ID CHK TIER <<< "$job"
  PROP=$(echo "$ID" | sed -E 's/^R[0-9]+-//; s/-[0-9]+$//')
  CHK=${CHK:-$PROP}; TIER=${TIER:-quick}
  P="$HERE/seeded/$ID/patch.diff"
  [ -f "$P" ] || { echo "$ID no patch" >> "$OUT/results.txt"; continue; }
  if ! git -C /repo apply "$P" 2>"$OUT/apply_$ID.err"; then
    if ! git -C /repo apply -3 "$P" 2>>"$OUT/apply_$ID.err"; then echo "$ID apply=FAIL" >> "$OUT/results.txt"; git -C /repo checkout -- .; git -C /repo reset -q; continue; fi
    git -C /repo reset -q
  fi
  s=$(date +%s)
  scripts/check.sh "$CHK" "$TIER" > "$OUT/log_${ID}_$CHK.txt" 2>&1; rc=$?
  e=$(date +%s)
  git -C /repo checkout -- .
  nv=$(grep -c '^VIOLATION' "$OUT/log_${ID}_$CHK.txt")
  echo "$ID check=$CHK tier=$TIER rc=$rc violations=$nv time=$((e-s))s :: $(grep -A1 '^VIOLATION' "$OUT/log_${ID}_$CHK.txt" | grep detail | head -1 | cut -c1-220)" >> "$OUT/results.txt"
done
git -C /repo checkout -- .
echo ALLDONE >> "$OUT/results.txt"
