#!/bin/bash
# Evaluate seeded changes against the checks: for each job  <seeded-id>[:CHECK[:TIER]]
#   git -C /repo apply seeded/<id>/patch.diff ; scripts/check.sh CHECK TIER ; git -C /repo checkout -- .
# The patch is applied to /repo's working tree in place (the checks rebuild from it), so an interrupted run
# would leave a seeded defect behind (this happened once: R7-C07-2, see known_findings.json, C07 fixed entry).
# Therefore: /repo is restored from an EXIT/INT/TERM/HUP trap, and the id of the patch in flight is kept in
# $HERE/.seeded_in_flight, which survives a SIGKILL; a later run of this script or of check.sh that finds the
# marker while /repo is dirty says so instead of silently checking a patched tree.
# CHECK defaults to the change's own property, TIER to quick. Results are appended to $OUT/results.txt
# (default OUT=/tmp/muteval). /repo must be clean; do not build in harness/ while this runs.
HERE="$(cd "$(dirname "$0")/.." && pwd)"
OUT=${OUT:-/tmp/muteval}; mkdir -p "$OUT"
cd "$HERE"
MARK="$HERE/.seeded_in_flight"
if [ -e "$MARK" ]; then
  echo "stale marker $MARK: seeded change '$(cat "$MARK")' was in flight when an earlier evaluation died;" >&2
  echo "restoring /repo's working tree (git checkout -- .) and removing the marker" >&2
  git -C /repo checkout -- . ; git -C /repo reset -q ; rm -f "$MARK"
fi
if [ -n "$(git -C /repo status --porcelain)" ]; then echo "/repo is not clean" >&2; exit 2; fi
# only from here on is every modification of /repo's working tree this script's own
restore() { git -C /repo checkout -- . 2>/dev/null; git -C /repo reset -q 2>/dev/null; rm -f "$MARK"; }
trap restore EXIT
trap 'restore; exit 130' INT TERM HUP
for job in "$@"; do
  IFS=: read ID CHK TIER <<< "$job"
  PROP=$(echo "$ID" | sed -E 's/^R[0-9]+-//; s/-[0-9]+$//')
  CHK=${CHK:-$PROP}; TIER=${TIER:-quick}
  P="$HERE/seeded/$ID/patch.diff"
  [ -f "$P" ] || { echo "$ID no patch" >> "$OUT/results.txt"; continue; }
  echo "$ID" > "$MARK"
  if ! git -C /repo apply "$P" 2>"$OUT/apply_$ID.err"; then
    if ! git -C /repo apply -3 "$P" 2>>"$OUT/apply_$ID.err"; then echo "$ID apply=FAIL" >> "$OUT/results.txt"; git -C /repo checkout -- .; git -C /repo reset -q; rm -f "$MARK"; continue; fi
    git -C /repo reset -q
  fi
  s=$(date +%s)
  VERIF_SEEDED_EVAL=1 scripts/check.sh "$CHK" "$TIER" > "$OUT/log_${ID}_$CHK.txt" 2>&1; rc=$?
  e=$(date +%s)
  git -C /repo checkout -- .
  rm -f "$MARK"
  nv=$(grep -c '^VIOLATION' "$OUT/log_${ID}_$CHK.txt")
  echo "$ID check=$CHK tier=$TIER rc=$rc violations=$nv time=$((e-s))s :: $(grep -A1 '^VIOLATION' "$OUT/log_${ID}_$CHK.txt" | grep detail | head -1 | cut -c1-220)" >> "$OUT/results.txt"
done
git -C /repo checkout -- .
echo ALLDONE >> "$OUT/results.txt"
