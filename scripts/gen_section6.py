#!/usr/bin/env python3
"""Regenerates the outcome tables of DESIGN.md §6 from known_findings.json."""
import json
p='/verif/DESIGN.md'
s=open(p).read()
i=s.index("Fixed (one `fix:` commit each):")
j=s.index("Reading-time observations (kept for the record")
kf=json.load(open('/verif/known_findings.json'))['findings']
found_by={"C02-Zeta-tail-precision":"C02 law test (Zeta<f64> s<=1.2, Zeta<f32> s<=1.5 at n=4e6)",
"C03-Exp1-tail-inf":"C03 lattice: region word (layer 0 tail) + zero word",
"C03-Hypergeometric-HIN-bound":"C03 lattice: max word at position 0",
"C03-Gumbel-Frechet-inf":"C03 lattice and exhaustive f32 sweep (pattern 2^24-1); C13",
"C03-Zipf-n-plus-1":"C03 lattice: max word at position 0",
"C04-LogNormal-mean-cv-zero":"C04 special-value cross product",
"C04-Hypergeometric-u64-overflow":"C04 special u64 lattice, checked profile (and a hung release run)",
"C05-Binomial-u64max-hang":"C05 extreme cells + adversarial words, monitor thread",
"C10-tree-float-zero-residue-panic":"C10 zeroing histories on float trees",
"C02-Zipf-s-near-1":"C02 law test on the near-switch grid cells s = 1 +- few ulp / 1e-3 (first recorded as a known finding, then repaired)",
"C03-Zipf-s-near-1":"C03 random-stream phase on the same cells (values outside [1, n])",
"C03-Hypergeometric-huge-N-panic":"a round-3 sub-agent (writing a C05 change) — NOT by the checks: their extreme cells had one tuple above 2^50; the cells 2^40..2^62 x 5 shapes were added afterwards and re-find it on the pre-fix source",
"C05-Zipf-inf-n-s-near-1":"C05 extreme cells (Zipf n x s cross product, added after seeded change R3-C05-1 was missed): mean-word bound and per-call budget",
"C02-Binomial-huge-n-tiny-p":"C02 grid cell Binomial(1<<62, 2^-53) (quick); thorough-tier random cells for the 1e13..2^53 part",
"C02-Binomial-BTPE-endpoint-n":"C02 thorough tier, exhaustive n <= 30 set at n = 1e8 (a regression of fix 49f8c75)",
"C01-Beta-BB-cancellation":"C01 random near-switch cell under VERIF_SEED=32 / chacha (second multi-seed robustness run)",
"C08-alias-subnormal-weight-sum":"a round-6 sub-agent (writing C08 changes) — NOT by the checks, whose float alphabets stopped at MIN_POSITIVE; subnormal vectors were added and re-find it on the pre-fix source",
"C05-Zipf-max-n-s-zero":"a round-6 sub-agent (writing C05 changes) — NOT by the checks: the Zipf cross product of C05 had MAX/4 and inf but not MAX itself (added; re-finds it on the pre-fix source). A regression of fix d69b147.",
"C07-Triangular-narrow-range-point-mass":"C07 quick, far power-of-two scales 2^-(9..30) on the Triangular base cells, first fresh-restore run (VERIF_SEED=1): 8 signatures. The defect was seeded change R7-C07-2 left in /repo by an interrupted evaluation (§0)",
"C02-Binomial-BINV-tiny-p":"C02 random cell under VERIF_SEED=11 / xoshiro (multi-seed robustness run)"}
txt="Fixed (one `fix:` commit each):\n\n| property | commit | what failed | found by |\n|---|---|---|---|\n"
for f in kf:
    if f['status']=='fixed':
        w=f['what'].split(f.get('commit',''),1)[-1].strip()
        txt+=f"| {f['property']} | {f.get('commit','')} | {w.replace('|','/')} | {found_by.get(f['id'],'')} |\n"
txt+="\nKnown findings (genuine defects recorded, not repaired — reasons in `known_findings.json`):\n\n| id | signature | summary |\n|---|---|---|\n"
for f in kf:
    if f['status']=='known':
        sig=f"{f['family']} / {f.get('float','*')} / {f.get('symptom','*')} / {f.get('trigger','*')}" + (f" / region {f['region']}" if f.get('region') else "")
        txt+=f"| {f['id']} | {sig.replace('|',' or ')} | {f['what'][:260].replace('|','/')}… |\n"
txt+="\n"
open(p,'w').write(s[:i]+txt+s[j:])
print("ok")
