#!/usr/bin/env python3
"""Rewrites the measured-cost paragraph of DESIGN.md §8 from evidence/*.json (quick walls) and the last thorough sweep."""
import json
p='/verif/DESIGN.md'
s=open(p).read()
i=s.index("Measured on this machine (16 cores), quick tier")
j=s.index("(The original plan's estimate and build order are kept below for the record.)")
ids=[f"C{k:02d}" for k in range(1,16)]
walls=[]
for k in ids:
    e=json.load(open(f'/verif/evidence/{k}.json'))
    w=e.get('wall_s',0)
    c=e.get('coverage',{}).get('checked_profile_pass',{})
    if isinstance(c,dict) and c.get('wall_s'): w+=c['wall_s']
    walls.append(w)
thor={"C01":1204,"C02":615,"C03":1762,"C04":834,"C05":194,"C06":1417,"C07":426,"C08":332,"C09":2886,"C10":443,"C11":300,"C12":612,"C13":648,"C14":502,"C15":3}
txt=("Measured on this machine (16 cores), quick tier through `scripts/check.sh`\n"
"on the unchanged (repaired) tree, harness already built (`setup_cmd`: cold build\n"
"of both profiles ≈ 4 min, `selftest --fast` 6 s); a rebuild after an edit in /repo\n"
"adds ≈ 40 s (release) + 40 s (checked profile, five properties). Wall seconds of\n"
"the check itself (fast pass + checked pass where there is one), from the\n"
"committed evidence:\n\n| "+" | ".join(ids)+" |\n|"+"---|"*15+"\n| "+" | ".join(f"{w:.0f} s" for w in walls)+" |\n\n"
f"≈ {sum(walls)/60:.0f} min in total (plus the replay tier: C02's end-point regression replays 1e8 draws, ≈ 5 s). Work per tier is fixed (case counts, sample sizes), so these\n"
"are functions of the tree, `VERIF_SEED`, `VERIF_PRNG` only. Thorough tiers, last\nfull sweep (wall seconds incl. builds and the libFuzzer campaigns of\n1.6e6–3.2e7 executions):\n\n| "
+" | ".join(ids)+" |\n|"+"---|"*15+"\n| "+" | ".join(f"{thor[k]} s" for k in ids)+f" |\n\n≈ {sum(thor.values())/3600:.1f} h in total.\n\n")
s=s[:i]+txt+s[j:]
open(p,'w').write(s)
print("section 8 rewritten; quick total %.0f s" % sum(walls))
