#!/usr/bin/env python3
"""Writes /verif/MANIFEST.json from the table below (kept in one place so it stays valid)."""
import json, subprocess
CHECKS = {
 "C01": ("statistical law test (KL-Chernoff bins + multinomial KL + exact-duplicate atom test, confirmed on an independent stream) over generated parameter cells (switch grids, log-spaced shape lattices, random cells)", "§5 C01, §3.2",
         "Exploration: every continuous family x {f32,f64} on a switch-point grid plus random cells of E; each cell's n draws are tested bin-by-bin and cumulatively against an independently computed reference CDF with a proved false-alarm bound (<= 1e-9 per run) and confirmed on an independent 4n stream. Resolves law deviations down to ~4e-3 (quick) / ~9e-4 (thorough) in Kolmogorov distance per cell and tail edges at 1e-6; does not prove exactness.",
         "PRNG ideal at the sample sizes used; reference CDFs validated against the scipy/mpmath golden table; float null model of DESIGN 3.2"),
 "C02": ("statistical pmf test per integer atom over exhaustive small parameter sets, switch grids, shape lattices and random tuples; exact induced law of StandardGeometric over forced leading-zero streams", "§5 C02, §3.2",
         "Exploration: exact pmf references (recurrences) with per-integer bins; exhaustive Binomial n<=30 x p-grid and Hypergeometric N<=40, grids straddling every method switch, random tuples up to n=2^62 / lambda=1e15 / N=2^40.",
         "as C01; Berry-Esseen / Le Cam slack where the reference is an approximation (stated in evidence)"),
 "C03": ("scripted-RNG search: boundary-lattice word at each stream position + exhaustive 2^24 f32 sweep, support/panic oracle", "§5 C03, §3.1",
         "Exploration with exhaustive sub-spaces: for every cell the full boundary lattice at stream positions 0..7 (and combinations with region words) and, for f32 samplers, all 2^24 high-bit patterns of each consumed word are enumerated; judged in the release and in the debug-assertions/overflow-checks profile.",
         "one-64-bit-word-per-call stream model; E as fixed in DESIGN 4; position range 0..7"),
 "C04": ("exhaustive special-value cross product + proptest-random argument tuples against a three-valued oracle table", "§5 C04, Appendix C",
         "Exploration with an exhaustive sub-space: the full cross product of the per-type special-value lattice for every public constructor (both float types) plus shrinking random tuples; oracle transcribed from the doc comments (MustErr/MustOk/Unspecified), no-panic in release and checked profiles, accessors bit-equal.",
         "Appendix C is a faithful transcription of the docs; Hypergeometric tuples above the construction-cost guard are skipped (counted)"),
 "C05": ("counting-RNG search over extreme parameter cells with word budget, mean-word bounds and a CPU-time hang monitor", "§5 C05",
         "Exploration: every E cell plus the integer/float extremes accepted by the constructors; random streams (mean words/call vs a family constant, per-call budget 1e5 words) and single-word-adversarial streams; a monitor thread flags calls that run > 20 s busy on CPU. Shows bounded termination on everything explored, not termination for all inputs.",
         "family constants fixed in DESIGN; hang threshold wall+CPU clock; machine not oversubscribed"),
 "C06": ("exhaustive table identities through a cfg hook + abscissa-aligned statistical law test of the two ziggurat primitives", "§5 C06",
         "Table clause: exhaustive (all 4x257 entries and 2 constants). Law clause: exploration at n = 4e9 (quick) / 2e11 (thorough) draws per primitive on ~2100 abscissa-aligned bins incl. wedges, tail and mirror-bin symmetry.",
         "as C01; hook rand_distr_verif exposes the private tables read-only"),
 "C07": ("metamorphic paired sampling on cloned streams (affine map oracle), bit-exact for Normal/LogNormal and from_zscore", "§5 C07",
         "Exploration: base cells x (a,b) pairs x streams (random and single-word-adversarial); y' = a + b y within 8 ulp, equal word counts; exact dyadic/lattice cases carry the exactness claim for branching samplers.",
         "b in 2^-8..2^8 and [1e-3,1e3]; rounded-parameter cases use the stated amplified tolerance"),
 "C08": ("exhaustive short weight vectors + proptest-random vectors (structure), exact induced law of integer tables by enumerating every (column, level) pair with forced words, frequency tests per weight type; thorough: libFuzzer campaign (alias_vector)", "§5 C08",
         "Exploration with exhaustive sub-spaces: all vectors of length <= 6 over a 7..12-letter alphabet for each of the 13 weight types (error spec in exact arithmetic, weights() reconstruction), shrinking random vectors up to length 1e4, per-index frequency tests and boundary-lattice words on both draws.",
         "as C01 for the frequency clause"),
 "C09": ("model-based history testing: exhaustive bounded-depth histories (u8/i8) + proptest-random histories for 13 weight types against a Vec model", "§5 C09",
         "Exploration with exhaustive sub-spaces: every history of depth <= 4 (quick) / 5 (thorough) over a 5-letter alphabet from every start vector of length <= 3 for u8 and i8; random histories up to 400 ops for all types with shrinking; invariant checked after every step.",
         "indices generated in range; float trees compared within the stated rounding-drift tolerance"),
 "C10": ("state-based sampling checks on trees reached by generated histories: lattice words, frequency tests, exact induced law of integer trees by enumerating every target with a forced word, exhaustive 2^23 targets for f32; thorough: libFuzzer campaign (tree_sample)", "§5 C10",
         "Exploration with an exhaustive sub-space: states from fresh builds and random histories (lengths 1..1e4); for f32 trees all 2^23 values of the float draw are enumerated (exact induced law, any panic found with certainty).",
         "as C01 for frequencies; float trees judged against the weights the structure reports"),
 "C11": ("per-sample simplex predicates + statistical marginal/pairwise Beta law tests + exact-duplicate atom test on components over generated alpha vectors (fixed short / long / switch-straddling vectors and random ones)", "§5 C11",
         "Exploration: alpha vectors of every class (all<=0.1, all>0.1, mixed, straddling 0.1 +- ulp, lengths 2..64), f32/f64; sample vs sample_to_slice bit equality on cloned streams.",
         "as C01; components judged down to the simplex resolution eps*2^12"),
 "C12": ("per-point norm predicates + product-bin uniformity tests (KL-Chernoff per bin, multinomial KL) + exact-duplicate atom test on the points, lattice words for the norm clause", "§5 C12",
         "Exploration: 5e8 (quick) / 1e10 (thorough) points per sampler and float type on product bins of the uniformising coordinates and their marginals.",
         "as C01"),
 "C13": ("exhaustive enumeration of all 2^24 first-word patterns per cell, exact induced CDF vs documented CDF", "§5 C13",
         "Exhaustive in the random dimension (no sampling error), exploration in the parameter dimension (grid + canonical + random cells): exact Kolmogorov distance against the stated f32 resolution bound and support of every reachable output.",
         "documented CDF evaluated in f64; golden-validated"),
 "C14": ("metamorphic stateful testing: proptest schedules of interleaved sample calls (pairs, triples, run lengths), isolated replay of every recorded call in a fresh thread, per-call word budget with isolated termination check, fresh-process probes for process-global state, equal vectors in differently aligned buffers; thorough: libFuzzer campaign (schedule)", "§5 C14",
         "Exploration: schedules of up to 199 steps over up to 6 objects of any family; every call replayed on a fresh object with the recorded RNG state in a fresh thread and reverse order; clone/rebuild/sample_iter equivalence; Debug/PartialEq unchanged.",
         "hidden state is visible only through history dependence of results / word counts / RNG state"),
 "C15": ("round-trip property over generated distribution values (two JSON routes), equality + paired sampling oracle", "§5 C15",
         "Exploration: every serde-enabled type (detected at compile time) on grids and random cells covering each internal variant, weighted indices of lengths 1..300 for 13 weight types.",
         "feature set {std, serde}; JSON with float_roundtrip"),
}
NA = {}
def repo_hook_commits():
    out = subprocess.run(["git","-C","/repo","log","--format=%H %s"],capture_output=True,text=True).stdout
    return [l.split()[0] for l in out.splitlines() if "verif hook" in l]
m = {
 "version": 1,
 "setup_cmd": "cd /verif/harness && CARGO_NET_OFFLINE=true cargo build --release --bin verif && CARGO_NET_OFFLINE=true cargo build --profile checked --bin verif && ./target/release/verif selftest --fast",
 "hooks": {
   "guard": "rand_distr_verif",
   "enable": "rustc --cfg rand_distr_verif via /verif/harness/.cargo/config.toml [build] rustflags; the harness depends on rand_distr by path = /repo, so every check rebuilds the working tree with the hook on",
   "baseline_off_cmd": "cd /repo && cargo test --workspace --no-fail-fast --offline",
   "source_commits": repo_hook_commits(),
   "add_only": True,
 },
 "engines": [
   {"name": "verif", "path": "/verif/harness", "serves_properties": sorted(CHECKS), "kind_free_text": "Rust harness (lib vcore + bin verif): generators, scripted/counting RNG, reference laws, finite-sample statistical rule, proptest drivers; cargo-fuzz targets under harness/fuzz"},
 ],
 "checks": [
   {"property_id": k, "quick_cmd": f"scripts/check.sh {k} quick", "thorough_cmd": f"scripts/check.sh {k} thorough",
    "evidence_file": f"/verif/evidence/{k}.json", "replay_cmd_template": "harness/target/release/verif replay {path}",
    "engine": "verif", "level_claimed": {"category": "exploration", "text": v[2], "design_ref": v[1]},
    "level_note": v[3], "technique": "property-based testing: " + v[0]}
   for k, v in sorted(CHECKS.items())
 ],
 "notes": "All checks: exit 0 held / 1 violation (VIOLATION line) / 2 infrastructure or inconclusive. Known findings: /verif/known_findings.json. VERIF_SEED, VERIF_TIER, VERIF_PRNG={chacha|pcg64|xoshiro} honoured. /repo commit 83e9298 (driver snapshot of the working tree) is not a hook and is not listed under hooks.source_commits: it is a seeded change left behind by an interrupted scripts/eval_seeded.sh run, removed in full by fix: commit c31dcc2 (DESIGN.md §0; known_findings.json, C07 fixed entry); 83e9298 + c31dcc2 together leave src/ byte-identical to b017c0c.",
 "not_applicable": [{"property_id": k, "reason": v} for k, v in sorted(NA.items()) if k not in CHECKS],
}
json.dump(m, open("/verif/MANIFEST.json","w"), indent=1)
print("checks:", len(m["checks"]), "not_applicable:", len(m["not_applicable"]))
