#!/usr/bin/env python3
"""Writes /verif/MANIFEST.json from the table below (kept in one place so it stays valid)."""
import json, subprocess
CHECKS = {
 "C01": ("statistical law test (KL-Chernoff bins, confirmed) over generated parameter cells", "§5 C01, §3.2",
         "Exploration: every continuous family x {f32,f64} on a switch-point grid plus random cells of E; each cell's sample of n draws is tested bin-by-bin and cumulatively against an independently computed reference CDF with a proved false-alarm bound (<=1e-9 per run) and confirmed on an independent 4n stream. Resolves law deviations down to ~3e-3 (quick) / ~4e-4 (thorough) in Kolmogorov distance per cell; does not prove exactness.",
         "PRNG ideal at the sample sizes used; reference CDFs validated against scipy/mpmath golden table; float null model of DESIGN 3.2"),
 "C02": ("statistical pmf test per integer atom over exhaustive small parameter sets, switch grids and random tuples", "§5 C02, §3.2",
         "Exploration: exact pmf references (recurrences) with per-integer bins; exhaustive Binomial n<=30 x p-grid and Hypergeometric N<=40, grids straddling every method switch, random tuples up to n=2^62 / lambda=1e15 / N=2^40.",
         "as C01; Berry-Esseen / Le Cam slack where the reference is an approximation (stated in evidence)"),
 "C03": ("scripted-RNG search: boundary-lattice word at each stream position + exhaustive 2^24 f32 sweep, support/panic oracle", "§5 C03, §3.1",
         "Exploration with exhaustive sub-spaces: for every cell the full boundary lattice at stream positions 0..7 (and combinations with region words) and, for f32 samplers, all 2^24 high-bit patterns of each consumed word are enumerated; judged in the release and in the debug-assertions/overflow-checks profile.",
         "one-64-bit-word-per-call stream model; E as fixed in DESIGN 4; position range 0..7"),
}
NA = {

 "C05": "check not built yet in this session (in progress)",
 "C06": "check not built yet in this session (in progress)",
 "C07": "check not built yet in this session (in progress)",
 "C08": "check not built yet in this session (in progress)",
 "C09": "check not built yet in this session (in progress)",
 "C10": "check not built yet in this session (in progress)",
 "C11": "check not built yet in this session (in progress)",
 "C12": "check not built yet in this session (in progress)",
 "C13": "check not built yet in this session (in progress)",
 "C14": "check not built yet in this session (in progress)",
 "C15": "check not built yet in this session (in progress)",
}
def repo_hook_commits():
    out = subprocess.run(["git","-C","/repo","log","--format=%H %s"],capture_output=True,text=True).stdout
    return [l.split()[0] for l in out.splitlines() if "verif hook" in l]
m = {
 "version": 1,
 "setup_cmd": "cd /verif/harness && CARGO_NET_OFFLINE=true cargo build --release --bin verif && CARGO_NET_OFFLINE=true cargo build --profile checked --bin verif && ./target/release/verif golden",
 "hooks": {
   "guard": "rand_distr_verif",
   "enable": "rustc --cfg rand_distr_verif via /verif/harness/.cargo/config.toml [build] rustflags; the harness depends on rand_distr by path = /repo, so every check rebuilds the working tree with the hook on",
   "baseline_off_cmd": "cd /repo && cargo test --workspace --no-fail-fast --offline",
   "source_commits": repo_hook_commits(),
   "add_only": True,
 },
 "engines": [
   {"name": "verif", "path": "/verif/harness", "serves_properties": sorted(CHECKS), "kind_free_text": "Rust harness (lib vcore + bin verif): generators, scripted/counting RNG, reference laws, finite-sample statistical rule, proptest drivers; cargo-fuzz targets under harness/fuzz"},
 ],
 "checks": [
   {"property_id": k, "quick_cmd": f"scripts/check.sh {k} quick", "thorough_cmd": f"scripts/check.sh {k} thorough",
    "evidence_file": f"/verif/evidence/{k}.json", "replay_cmd_template": "harness/target/release/verif replay {path}",
    "engine": "verif", "level_claimed": {"category": "exploration", "text": v[2], "design_ref": v[1]},
    "level_note": v[3], "technique": "property-based testing: " + v[0]}
   for k, v in sorted(CHECKS.items())
 ],
 "notes": "All checks: exit 0 held / 1 violation (VIOLATION line) / 2 infrastructure or inconclusive. Known findings: /verif/known_findings.json. VERIF_SEED, VERIF_TIER, VERIF_PRNG={chacha|pcg64|xoshiro} honoured.",
 "not_applicable": [{"property_id": k, "reason": v} for k, v in sorted(NA.items()) if k not in CHECKS],
}
json.dump(m, open("/verif/MANIFEST.json","w"), indent=1)
print("checks:", len(m["checks"]), "not_applicable:", len(m["not_applicable"]))
