#!/usr/bin/env python3
"""Round 3: copies the confirmed seeded changes from /tmp/seed3 into /verif/seeded/R3-<id>/ with meta.json.
Detection results are read from /tmp/mut3/results.txt
(lines: '<ID> <N> check=<CHK> rc=.. violations=.. time=..s :: detail'); the line whose check is the change's own
property is the primary result, other lines are recorded as cross-detection."""
import json, os, shutil, re
DESC3 = {
 "C01-1": ("ziggurat wedge test reads (f_tab[i-1], f_tab[i]) instead of (f_tab[i], f_tab[i+1]): every wedge proposal accepted", "bulk almost untouched (KS 5e-4); P(|Z|>3) +14 %, P(|Z|>3.5) +24 %, P(E>7) +23 %; far tail correct again"),
 "C01-2": ("PertBuilder::with_mean hard-codes the classic factor 6 instead of shape + 2", "only with_shape(s != 4) together with with_mean"),
 "C01-3": ("ChiSquared gets a k == 2 fast path returning a raw Exp1 draw (factor 2 missing)", "dof exactly 2.0 (also StudentT(2), FisherF(2,n)/(m,2)); 2 +- 1e-9 exact: a switch point that is not in the a-priori list"),
 "C02-1": ("Hypergeometric H2PE right tail uses lambda_l instead of lambda_r (copy-paste)", "H2PE with a skewed reduced problem (small K/N, mode just above 10): ~0.57 % of mass, e.g. (20000,300,1000)"),
 "C02-2": ("Zeta: exp_m1(..) replaced by exp(..) - 1", "far tail too heavy once (s-1)/x < ulp/2: f32 s=1.5 beyond 2^23 (1e-4 of mass); f64 only for s ~ 1.05"),
 "C02-3": ("Binomial BTPE region 3: negative proposals saturate to 0 instead of being rejected", "BTPE side with n*min(p,q) just above 10: P(X=0) (or X=n when flipped) inflated 25x, e.g. (30, 0.34): 3.9e-6 -> 9e-5"),
 "C03-1": ("Zeta proposal drawn from StandardUniform [0,1) instead of OpenClosed01", "uniform draw exactly 0 returns +inf for every s (one adversarial word; one of the 2^24 f32 values)"),
 "C03-2": ("WeightedTreeIndex::update decreasing branch walks to the root with index /= 2 instead of (index-1)/2", "a history: decrease at an index whose root path contains an even index, with a zero weight at the absorbing node: zero-weight index sampled"),
 "C03-3": ("InverseGaussian smaller root rewritten in conjugate form mu*4ly/(y+s)^2", "normal draw exactly 0 (the 'uniform = 1/2' word): 0/0 = NaN where HEAD returns mu"),
 "C04-1": ("DirichletFromBeta::new reverse loop written as (0..=(n-3)).rev()", "exactly two alphas, both <= 0.1: constructor panics on n - 3 underflow"),
 "C04-2": ("WeightedTreeIndex::new validates and accumulates in one reverse pass (check sees the subtree total)", "signed/float weights: a negative interior weight whose descendants sum to at least its magnitude is accepted"),
 "C04-3": ("Pert::with_mode computes w = shape + 2 - v", "huge finite shape (>= 2^54 f64, 2^25 f32) with mode == max (or a few ulp below): spurious RangeTooSmall"),
 "C05-1": ("Zipf: the s == inf special case of the normalisation constant removed", "exactly n == 1 with s == +inf: t = NaN, rejection loop never exits"),
 "C05-2": ("Gamma shape < 1 redraws u until u^(1/shape) does not underflow", "acceptance 1 - exp(-L shape): mean words 12 at shape 1e-3 (f32), 1.3e3 at 1e-6 (f64), never returns below ~1e-9 / 1e-19"),
 "C05-3": ("Hypergeometric H2PE variance computed with u64 products ((n-k)*k, n1*n2)", "N >= 2^32: products wrap, central region shrinks: 6 words at 1e10, 430 at 1e11, 5e4 at 1e12"),
 "C06-1": ("StandardNormal zero_case returns R + x instead of R - x on the positive side", "upper tail beyond +R empty (1.29e-4 of mass reflected below R); lower tail, body, wedges exact"),
 "C06-2": ("ZIG_EXP_R two digits transposed (7.679.. instead of 7.697..)", "R no longer equals X[1]; Exp1 tail becomes x1 - 0.018 + Exp(1): 8.1e-6 of mass"),
 "C06-3": ("normal tail rejection loop refactored to loop/break with the condition not negated", "tail mass, symmetry and count beyond R unchanged; only the shape inside the tail is wrong (mean excess 0.74 instead of 0.24), whole-law KS 7.7e-5"),
 "C07-1": ("LogNormal::sample returns exp(mean) without touching the RNG when sigma == 0", "log-space scale exactly 0: value right, zero words consumed"),
 "C07-2": ("SkewNormal refactor leaves a second linear_map in the shape == -1 branch", "shape exactly -1 with (loc, scale) != (0, 1)"),
 "C07-3": ("Weibull k == 2 fast path computes sqrt(scale*y) instead of scale*sqrt(y)", "shape exactly 2 with scale != 1"),
 "C12-1": ("UnitDisc fast path accepts max(|x1|,|x2|) <= 0.71 (1/sqrt 2 rounded up)", "2e-5 of draws outside the disc (norm up to 1.0041) at the diagonals"),
 "C12-2": ("UnitBall acceptance limit 1 - sqrt(eps)", "f32 only: the shell r^2 > 1 - 3.45e-4 (5.2e-4 of the mass) never produced"),
 "C12-3": ("UnitCircle rejection loop bounded to 8 candidates, then falls back to [1, 0]", "an atom of mass (1 - pi/4)^8 = 4.5e-6 at angle 0; norm and NaN clauses hold"),
 "C13-1": ("Weibull::new snaps 1/shape to the nearest integer within sqrt(eps)", "f32 shapes with 1/shape within 3.45e-4 of an integer but not equal (0.3333, 0.4999, 1.0003): distance 3e-5..8e-5"),
 "C13-2": ("Pareto 'avoid +inf' guard u.max(min_u) with the exponent -1/shape instead of -shape", "f32 shape >= 8: the smallest draws collapse onto one point (1.5e-5 of draws at 8, 1.2e-2 at 20)"),
 "C13-3": ("Triangular: |f_range - diff_mode_min| < F::epsilon() returns the mode (absolute epsilon)", "ranges << 1 near 0: atom of 2 eps/range at the mode (1.2e-5 at range 0.01)"),
 "C14-1": ("Hypergeometric: per-thread 128-slot memo of ln_of_factorial keyed by v as u64", "H2PE with mode >= 100: fractional and integer arguments collide; a sample depends on what was constructed / sampled before on the thread"),
 "C14-2": ("SkewNormal: per-thread memo of sqrt(2(1+shape^2)) shared by the f32 and f64 instantiations", "SkewNormal<f64> sampled right after a SkewNormal<f32> with an equal (f32-representable) shape: low bits differ"),
 "C14-3": ("Geometric: powi replaced by two per-thread chains of squares of 1-p; eviction does not reset len", "at least three Geometric objects with p < 2/3 on one thread; the evicted chain must have grown (p < ~0.29)"),
 "C15-1": ("Triangular caches split = (mode-min)/(max-min) as a serialised field", "degenerate min == max == mode: split is NaN, round-tripped value compares unequal"),
 "C15-2": ("ChiSquared serialised as its equivalent Gamma (serde from/into)", "k == 1 exactly: the DoFExactlyOne variant comes back as the general variant (unequal, different sample sequence); also StudentT(1), FisherF(1,_)/( _,1)"),
 "C15-3": ("Hypergeometric serialised as (N, K, n) and rebuilt through new(); the conversion forgets the composition of the two reflections", "K > N/2 and n > N/2: every sample shifted by K+n-N"),
}
res, cross = {}, {}
path = "/tmp/mut3/results.txt"
if os.path.exists(path):
    for l in open(path):
        m = re.match(r"(C\d\d) (\d) check=(C\d\d) rc=(\d+) violations=(\d+) time=(\d+)s :: ?(.*)", l.strip())
        if m:
            key = f"{m.group(1)}-{m.group(2)}"
            d = {"check": m.group(3), "tier": "quick", "exit": int(m.group(4)), "violation_lines": int(m.group(5)), "wall_s_incl_build": int(m.group(6)), "first_detail": m.group(7)[:300]}
            if m.group(3) == m.group(1):
                res[key] = d          # the latest run of the own check wins
            else:
                cross.setdefault(key, {})[m.group(3)] = d
notes = json.load(open("/verif/scripts/r3_notes.json")) if os.path.exists("/verif/scripts/r3_notes.json") else {}
for key, (what, needs) in sorted(DESC3.items()):
    pid, n = key.split("-")
    src = f"/tmp/seed3/{pid}/out"
    dst = f"/verif/seeded/R3-{key}"
    if os.path.exists(f"{src}/patch{n}.diff"):
        os.makedirs(dst, exist_ok=True)
        shutil.copy(f"{src}/patch{n}.diff", f"{dst}/patch.diff")
        shutil.copy(f"{src}/demo{n}.rs", f"{dst}/demo.rs")
    elif not os.path.exists(dst):
        continue
    old = json.load(open(f"{dst}/meta.json")) if os.path.exists(f"{dst}/meta.json") else {}
    conf = open(f"/tmp/confirm/res3_{pid}_{n}.txt").read().strip() if os.path.exists(f"/tmp/confirm/res3_{pid}_{n}.txt") else old.get("confirmed_by_builder", {}).get("result", "not re-run")
    meta = {
        "id": f"R3-{key}", "round": 3, "property": pid, "what": what, "needs_to_manifest": needs,
        "origin": "third round: independent sub-agent that saw only the property text, a scratch worktree, a list of source files no earlier change had touched and the one-line list of earlier changes to avoid",
        "confirmed_by_builder": {"how": "scratch worktree of /repo HEAD: git apply patch.diff; cargo test --offline (full existing suite, no warnings); demo copied to tests/ and run with the patch (must fail) and without (must pass)" + (" [demo needs --features serde]" if pid == "C15" else ""), "result": conf},
        "detection": res.get(key, old.get("detection", {"note": "see DESIGN.md Appendix D"})),
    }
    cd = dict(old.get("cross_detection", {})); cd.update(cross.get(key, {}))
    if cd:
        meta["cross_detection"] = cd
    if key in notes:
        meta["detection_notes"] = notes[key]
    json.dump(meta, open(f"{dst}/meta.json", "w"), indent=1)
os.makedirs("/verif/seeded/notes", exist_ok=True)
for pid in sorted(set(k.split("-")[0] for k in DESC3)):
    if os.path.exists(f"/tmp/seed3/{pid}/out/NOTES.md"):
        shutil.copy(f"/tmp/seed3/{pid}/out/NOTES.md", f"/verif/seeded/notes/R3-{pid}-NOTES.md")
print("round-3 dirs:", len([d for d in os.listdir("/verif/seeded") if d.startswith("R3-")]))
