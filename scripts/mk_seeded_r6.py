#!/usr/bin/env python3
"""Round 6: copies the confirmed seeded changes from /tmp/seed6 into /verif/seeded/R6-<id>/ with meta.json.
Detection results are read from /tmp/mut6/results.txt
(lines: '<ID> <N> check=<CHK> rc=.. violations=.. time=..s :: detail'); the line whose check is the change's own
property is the primary result, other lines are recorded as cross-detection."""
import json, os, shutil, re
DESC6 = {
 "C01-1": ("SkewNormal fast path location + scale |Z| sign(shape) for |shape| > 100", "|shape| strictly above 100: the mass on the far side of the location (atan(1/a)/pi: 0.32 % at 101, 0.03 % at 1000) becomes 0"),
 "C01-2": ("LogNormal::from_mean_cv 'small CV series' branch sigma = cv for cv < 0.25", "cv in [0.12, 0.25): sigma 0.5-1.55 % too large (sup-CDF 0.35 % at 0.24), mean exact"),
 "C01-3": ("Cauchy redraws the uniform when |x - 0.5| <= sqrt(eps)", "f32 only: 6.9e-4 of the mass cut: never more than ~922 scale units from the median"),
 "C02-1": ("Geometric::new detects the degenerate case with p < f64::EPSILON instead of 1 - p == 1", "2^-54 < p < 2^-52: every draw is u64::MAX"),
 "C02-2": ("Zipf (inv_b + 1).floor() simplified to inv_b.ceil()", "Zipf<f32>: u = 0 (2^-24 per proposal) returns 0.0, outside 1..=n (same slip as C03-1 of round 1, written under C02)"),
 "C02-3": ("Poisson rejection Step H: c * u.abs() lost its abs()", "lambda >= 12: total-variation error 0.35 % at 12, 0.25 % at 50, invisible at 1000"),
 "C03-1": ("Hypergeometric HIN bound cached as max_x from the original sample_size instead of the reduced k", "sample_size > N/2, min(K, N-K) > N - sample_size, and the all-ones word: value outside the support after reflection"),
 "C03-2": ("Gumbel / Frechet redraw loop replaced by x.min(1 - f64::EPSILON/2) (a no-op in f32)", "f32: the all-ones pattern (1 of 2^24) returns +inf"),
 "C03-3": ("Dirichlet stick-breaking: last component returned as 1 - sum(others)", "all alpha <= 0.1 and length >= 4: last component -1 ulp in 4e-4 .. 3e-3 of samples"),
 "C05-1": ("Zipf normalisation refactored to t = 1 + h(n): the s == 1 arm loses its ln (t = 1 + n)", "s exactly 1 and large n: law exact, acceptance (1 + ln n)/(1 + n): 21 words at n = 1e2, 8800 at 1e5, > 1e5 per call from n ~ 1e7"),
 "C05-2": ("Zipf: the guards 'x > n -> continue' and 'x infinite -> return x' merged into one continue (undoes fix 265e589)", "n = inf and s within ~1e-5 above 1: acceptance ~710 (s-1): 142 words at 1+1e-5, 1.4e6 at 1+1e-9"),
 "C05-3": ("Pareto::sample draws again when scale u^(-1/shape) overflows", "tiny shape only: 141 words at shape 1e-5, 1335 at 1e-6, ~1.4e6 at 1e-9"),
 "C08-1": ("integer try_from_u32_lossy round-trip check n < MAX instead of <=", "u8 vectors of exactly 255 entries / i8 of exactly 127: per-length maximum becomes 0, legal 0/1 vectors rejected"),
 "C08-2": ("scale and split merged: a weight equal to floor(sum/len) enters neither work list", "integer types with sum % len != 0 and a weight equal to the truncated average: 0.2-1 % of mass misplaced, zero-weight index 0 returned, weights() wrong"),
 "C08-3": ("trailing zero weights popped before the table is built", "last weight zero: weights() no longer returns the original vector ([3,0] -> [3])"),
 "C09-1": ("push() rewritten on top of update(): appends a zero placeholder first", "integer types, push failing with Overflow: the placeholder stays (len one too large)"),
 "C09-2": ("update() returns early when total + difference == total", "float types: an increase below half an ulp of the total is dropped: get(i) / pop() stale (1e-17 next to 1.0)"),
 "C09-3": ("pop() rewritten as a do-while loop starting at (len-1)/2", "pop() on a one-element tree panics"),
 "C10-1": ("update() adds an increase to the root first; the ancestor walk stops below the root", "an increase of index 0 is added to the root twice: P(0) off by 0.23 % of the mass in the demo"),
 "C10-2": ("get() treats a node as a leaf unless its right child exists (same shape as R5-C04-2)", "even length, update of the half-parent while index len-1 is non-zero: wrong delta, P(p) halved"),
 "C10-3": ("try_sample descent rewritten with match; the [left] arm compares with <=", "integer weights, even length, half-parent with non-zero weight, one target in total: final assertion panics"),
 "C11-1": ("reverse cumulative sums built in blocks of 32 with the wrong carry", "Beta method (all alpha <= 0.1) with length >= 34: marginal and ratio laws wrong, samples still on the simplex"),
 "C11-2": ("Gamma method: zero-sum guard written as sum < F::epsilon() returns the centre of the simplex", "all alpha in ~(0.1, 0.3), few components: an atom at (1/k, ..) with probability 5e-6 .. 8.5e-4"),
 "C11-3": ("Gamma method: entries with alpha < 0.01 sampled by inversion u^(1/alpha)", "vectors straddling the 0.1 switch with an entry in [1e-3, 0.01): that component's CDF off by ~0.3 % of mass, its mean by 7-12 %"),
}
res, cross = {}, {}
path = "/tmp/mut6/results.txt"
if os.path.exists(path):
    for l in open(path):
        m = re.match(r"R6-(C\d\d)-(\d) check=(C\d\d) tier=\w+ rc=(\d+) violations=(\d+) time=(\d+)s :: ?(.*)", l.strip())
        if m:
            key = f"{m.group(1)}-{m.group(2)}"
            d = {"check": m.group(3), "tier": "quick", "exit": int(m.group(4)), "violation_lines": int(m.group(5)), "wall_s_incl_build": int(m.group(6)), "first_detail": m.group(7)[:300]}
            if m.group(3) == m.group(1):
                res[key] = d          # the latest run of the own check wins
            else:
                cross.setdefault(key, {})[m.group(3)] = d
notes = json.load(open("/verif/scripts/r6_notes.json")) if os.path.exists("/verif/scripts/r6_notes.json") else {}
for key, (what, needs) in sorted(DESC6.items()):
    pid, n = key.split("-")
    src = f"/tmp/seed6/{pid}/out"
    dst = f"/verif/seeded/R6-{key}"
    if os.path.exists(f"{src}/patch{n}.diff") and os.path.exists(f"{src}/demo{n}.rs"):
        os.makedirs(dst, exist_ok=True)
        shutil.copy(f"{src}/patch{n}.diff", f"{dst}/patch.diff")
        shutil.copy(f"{src}/demo{n}.rs", f"{dst}/demo.rs")
    elif not os.path.exists(dst):
        continue
    old = json.load(open(f"{dst}/meta.json")) if os.path.exists(f"{dst}/meta.json") else {}
    conf = open(f"/tmp/confirm/res6_{pid}_{n}.txt").read().strip() if os.path.exists(f"/tmp/confirm/res6_{pid}_{n}.txt") else old.get("confirmed_by_builder", {}).get("result", "not re-run")
    meta = {
        "id": f"R6-{key}", "round": 6, "property": pid, "what": what, "needs_to_manifest": needs,
        "origin": "sixth round: independent sub-agent that saw only the property text, a scratch worktree, a list of source files no earlier change had touched and the one-line list of earlier changes to avoid",
        "confirmed_by_builder": {"how": "scratch worktree of /repo HEAD: git apply patch.diff; cargo test --offline (full existing suite, no warnings); demo copied to tests/ and run with the patch (must fail) and without (must pass)" + (" [demo needs --features serde]" if pid == "C15" else ""), "result": conf},
        "detection": res.get(key, old.get("detection", {"note": "see DESIGN.md Appendix D"})),
    }
    cd = dict(old.get("cross_detection", {})); cd.update(cross.get(key, {}))
    if cd:
        meta["cross_detection"] = cd
    if key in notes:
        meta["detection_notes"] = notes[key]
    json.dump(meta, open(f"{dst}/meta.json", "w"), indent=1)
os.makedirs("/verif/seeded/notes", exist_ok=True)
for pid in sorted(set(k.split("-")[0] for k in DESC6)):
    if os.path.exists(f"/tmp/seed6/{pid}/out/NOTES.md"):
        shutil.copy(f"/tmp/seed6/{pid}/out/NOTES.md", f"/verif/seeded/notes/R6-{pid}-NOTES.md")
print("round-6 dirs:", len([d for d in os.listdir("/verif/seeded") if d.startswith("R6-")]))
