#!/usr/bin/env python3
"""Copies the confirmed seeded changes from /tmp/seed into /verif/seeded/<id>/ with meta.json.
Detection results are read from /tmp/mut/all_results.txt (lines: '<ID> <N> rc=.. violations=.. time=..s :: detail')."""
import json, os, shutil, re
DESC = {
 "C01-1": ("StandardNormal tail acceptance test inverted (zero_case loop rewritten, continue-condition kept as break-condition)", "only the ziggurat base-strip tail |z| > 3.654 (mass 2.6e-4) becomes heavier; bulk bit-identical; needs tail counts at 1e-4..1e-6"),
 "C01-2": ("Gamma Marsaglia-Tsang squeeze constant 0.0331 -> 0.0133 (digits transposed while hoisting constants)", "Gamma wrong only for kernel shape in (1,1.65): 1<k<1.65 and, through boosting, k<0.65; <=1.2% of mass; inherited by ChiSquared/StudentT/FisherF/Dirichlet"),
 "C01-3": ("SkewNormal shape == +-1 special cases swapped", "only at shape exactly +1 or -1 (mirror image); neighbours 0.999/1.001 exact"),
 "C02-1": ("Binomial BTPE mode computed as floor(np) instead of floor(np+p)", "BTPE side only (n*min(p,q)>=10) and frac(np)+p>=1; 0.2-0.55% of mass at the mode, shrinking as n^-1.5"),
 "C02-2": ("Geometric powi/powf selector m <= i32::MAX -> m <= u32::MAX", "only when the power-of-two split has k >= 32, i.e. p < 3.2e-10"),
 "C02-3": ("Hypergeometric H2PE squeeze: xk = k - m + 0.5 tidied to k - xm", "only the squeeze path (reduced mode >= 100 and y > 50); moves 0.2-0.45% of mass between the tails; never for N<=40"),
 "C03-1": ("Zipf x = floor(inv_b + 1) simplified to ceil(inv_b) (rebased onto the n+1 fix)", "returns 0 when the proposal uniform is exactly 0 (one adversarial word; 2^-24 per f32 draw)"),
 "C03-2": ("Beta overflow guard w == inf replaced by w > F::from(1e300)", "f32 only (1e300 converts to +inf): NaN for Beta<f32> with alpha>=beta, beta < ~0.19 in the tail of the first uniform"),
 "C03-3": ("Poisson rejection method: Step N guard g >= 0 removed", "lambda >= 12 with a negative normal proposal (probability Phi(-sqrt(lambda))): FACT[k.to_usize().unwrap()] panics; a single all-zero first word triggers it for lambda < 13.3"),
 "C04-1": ("ChiSquared::new guard !(0.5*k > 0) simplified to !(k > 0)", "smallest positive subnormal only: 0.5*k rounds to 0 and Gamma::new(0,2).unwrap() panics (also StudentT/FisherF)"),
 "C04-2": ("WeightedTreeIndex::push overflow pre-check removed, unwrap -> map_err", "rejected push near W::MAX leaves the leaf appended and lower parents incremented (len/get/pop wrong afterwards)"),
 "C04-3": ("NIG gamma = alpha*sqrt(1-(beta/alpha)^2) replaced by sqrt((alpha-beta)(alpha+beta))", "overflows for alpha > sqrt(MAX): valid finite alpha rejected with AlphaInfinite"),
 "C05-1": ("Beta BB step 4 `if !(x < t)` rewritten as `if x >= t`", "identical for non-NaN; when 2ab overflows every proposal is NaN and the loop never exits (Beta(1e155,1e155), Beta<f32>(2e19,2e19))"),
 "C05-2": ("Binomial BINV restart cutoff 110 -> n", "huge n with tiny p (np<10): computed pmf sums short of 1 and the walk runs n steps without drawing words"),
 "C05-3": ("Geometric: k capped below 31 in new() and powf branch dropped", "law unchanged but for p < 3.2e-10 the D loop needs 1/(2^31 p) draws: mean words 49 at 1e-11, 4e4 at 1e-14"),
 "C06-1": ("Exp1 zero_case reuses the layer uniform u instead of drawing a fresh one (rebased onto the tail fix)", "only on a tail hit (4.5e-4 per sample): tail samples confined to (R, R+0.122]"),
 "C06-2": ("ziggurat fast-accept test uses x instead of |x|", "every negative normal candidate accepted at once: negative side has flat wedges, no tail, P(x<0)=0.5016"),
 "C06-3": ("ZIG_NORM_F[7] two digits transposed", "table identity off by 9e-5; layers 6/7 wedge acceptance +5%, ~3e-6 of total mass"),
 "C07-1": ("Normal::new stores std_dev.abs()", "only for negative std_dev; marginal law unchanged"),
 "C07-2": ("InverseGaussian cancellation-avoiding branch for y > 4*shape drops a factor mu", "draws with v^2 > 4 shape/mean and mean != 1"),
 "C07-3": ("Pert::with_mode snaps the mode to the midpoint when |mode-mid| <= F::epsilon() (absolute)", "f32 with ranges ~1e-6 (f64 ~1e-16): affine image and word count break"),
 "C08-1": ("float pairwise_sum rewritten with chunks_exact(32): drops the last len%32 weights", "f32/f64 vectors longer than 32 whose length is not a multiple of 32"),
 "C08-2": ("alias construction: leftover small columns no longer forced to 100%", "floats only: alias slot keeps u32::MAX terminator; sample returns 4294967295 in a few-ulp gap, weights() panics"),
 "C08-3": ("alias new(): n converted to W up front with ok_or(InvalidInput)", "u8 vectors of length >= 256 / i8 >= 128: wrong error kind"),
 "C09-1": ("WeightedTreeIndex::update overflow pre-check removed (failed update not atomic)", "integer type, total near MAX, overflowing update(i>=1)"),
 "C09-2": ("WeightedTreeIndex::new validation fused into the accumulation loop", "negative weight at an inner position masked by its subtree sum (signed ints / floats)"),
 "C09-3": ("WeightedTreeIndex::update leaf fast path with off-by-one is_leaf", "even number of weights, update of index n/2-1, non-zero last weight"),
 "C10-1": ("update leaf fast path off by one (same mechanism as C09-3)", "even length, update of index len/2-1, then sampling"),
 "C10-2": ("rejected update partially applied", "near-MAX totals: rejected update of a non-root index, then sampling"),
 "C10-3": ("is_valid rewritten as total != 0", "float trees whose weights were all updated to zero (negative residue): is_valid() true and sample panics"),
 "C10-4": ("pop walks up from len-1 instead of len", "popped element is a left child (even length before pop)"),
 "C11-1": ("Beta-method last component computed as 1 - sum(others)", "all alpha <= 0.1, n >= 4: last component slightly negative in ~0.05-2% of samples"),
 "C11-2": ("Beta-method early exit when acc == 0 without writing skipped slots", "all alpha <= 0.1, n >= 3, sample_to_slice into a reused buffer"),
 "C11-3": ("Gamma-method two-component fast path [x, 1-x]", "n == 2: lower tail of x_1 collapses onto 0 / multiples of eps (0.4-5% of mass)"),
 "C12-1": ("UnitSphere reuses one variate after a rejection", "z tilts 1.22x..0.80x, ~5% of mass moved"),
 "C12-2": ("UnitBall cheap pre-test |x1|+|x2|+|x3| > 1.7 (should be sqrt 3)", "0.2% of mass missing in 8 caps at r > 0.98 near the body diagonals"),
 "C12-3": ("UnitCircle rewritten in tangent half-angle form", "[NaN,NaN] when the first variate is exactly 0 (one adversarial word; 1 per 6.6M f32 samples)"),
 "C13-1": ("Weibull: -ln(x) computed as ln_1p(t) for t = 1-x < 1/64", "1.56% of draws, CDF off by up to 2.4e-4"),
 "C13-2": ("Cauchy near-pole branch forgets to add the median", "median != 0 and 0.78% of draws in the far tails"),
 "C14-1": ("WeightedAliasIndex::clone_from reusing allocations leaves uniform_within_weight_sum stale", "clone_from onto a value with the same number of weights and a different total"),
 "C14-2": ("Dirichlet stick-breaking early exit leaves middle output entries unwritten", "all alpha <= 0.1, dimension >= 3, sample_to_slice into a reused buffer"),
 "C14-3": ("Binomial BTPE setup memoised in a thread_local keyed without `flipped`", "two binomials with the same n and complementary p sampled on one thread"),
 "C15-1": ("GammaLarge/SmallShape serialised as {shape, scale} and rebuilt", "Small variant, ~6% of shapes < 1: 1/(1/x) not exact"),
 "C15-2": ("alias samplers not serialised, rebuilt with Uniform::new_inclusive", "integer weights: sample sequence diverges after the round trip"),
 "C15-3": ("Btpe gets a cached `squeeze` field marked serde(skip)", "Btpe variant with npq > 42: round-tripped value compares unequal"),
 "C15-4": ("KnuthMethod deserialisation validates exp_lambda in (0,1)", "Poisson(1e-17) / Binomial Poisson-limit with exp_lambda == 1.0 fail to deserialise"),
}
DESC2 = {
 "C01-1": ("Exp1 zero_case reuses the base-strip variate u instead of a fresh uniform", "only tail hits (4e-4): [7.70,9.86] never produced, density beyond 8.7x too high"),
 "C01-2": ("StudentT returns the plain normal variate when dof >= 30", "nu >= 30 only: K-distance 0.5% at 30, 0.15% at 100"),
 "C01-3": ("LogNormal::from_mean_cv computes mu = ln(mean) - 0.5*sigma instead of - 0.5*sigma^2", "only this constructor with cv != 1.3108 (sigma != 1)"),
 "C02-1": ("Zipf 's near 1' shortcut: |s-1| < sqrt(eps) uses the s = 1 constants but the true s in the acceptance ratio", "Zipf<f32> with 0.99966 < s < 1.00034, s != 1, large n: CDF off by ~1.2e-3"),
 "C02-2": ("Binomial BTPE step 5.3 uses |y-m| instead of the signed y-m", "npq > 42 and |y-m| > 20: K-distance 0.4-2.3%"),
 "C02-3": ("Poisson rejection step Q: fy*(1-u) became fy*u", "lambda >= 12: 3.1% at 12, 0.77% at 300, 0.14% at 1e4"),
 "C03-1": ("alias construction: leftover 'small' columns no longer clamped", "float weights: index 4294967295 when the second uniform draw is at its maximum"),
 "C03-2": ("Hypergeometric H2PE left tail: floor moved after the y >= 0 guard", "mode 10-13 (just above the HIN switch): u64::MAX / min(n,K)+1 at ~3e-5 per sample"),
 "C03-3": ("Binomial BINV restart loop flattened: returns 111 instead of redrawing", "n < 111, BINV branch, uniform draw 1-2^-53"),
 "C05-1": ("Zeta acceptance test <= rewritten as <", "large s where both sides overflow to inf: f32 s >= 66, f64 s >= 514: acceptance collapses / never returns"),
 "C05-2": ("Binomial BTPE step 5.0 botched De Morgan", "O(|y-mode|) recurrence for almost every proposal: CPU only, 20 ms per call at n=2^40, > 5 s at 2^62"),
 "C05-3": ("Poisson c = 0.1069/sqrt(lambda) instead of /lambda", "law unchanged; each visit of the step E/H loop needs ~4 sqrt(lambda) words (>1e5 at lambda = 1e9)"),
 "C07-1": ("Frechet redraw loop also rejects values not > location", "small shape and non-zero location: extra word and unrelated value in 0.6-3.3% of draws"),
 "C07-2": ("Pert v,w rewritten with the constant 5 instead of shape+1", "shape != 4 together with min != 0"),
 "C07-3": ("Pareto sample clamped to MAX after scaling", "heavy tails only (power overflows): f32 shape 0.05, f64 shape ~0.004"),
 "C08-1": ("alias weight validation as a min/max fold seeded with weights[0]", "NaN at any position other than 0 accepted; new() then panics"),
 "C08-2": ("alias: clamp of scaled odds to MAX removed", "float weight exactly MAX/len at len 3,6,7,9,12 (f64) plus a second above-average weight: frequencies off by 0.1-0.2"),
 "C08-3": ("alias clone_from that forgets weight_sum", "clone_from between instances of different total, then weights()"),
 "C09-1": ("push/update guard !(w >= 0) rewritten as w < 0", "float NaN weight accepted"),
 "C09-2": ("push: up-front overflow check dropped, failed walk removes the leaf but leaves ancestors incremented", "integer total near MAX and len >= 3"),
 "C09-3": ("update increase/decrease branches merged through checked_add of a wrapped difference", "unsigned types: every strict decrease panics"),
 "C10-1": ("try_sample single-weight fast path ahead of the zero-total guard", "len == 1 with a zero weight: Ok(0) instead of InsufficientNonZero"),
 "C10-2": ("push loses its overflow pre-check", "rejected push near MAX: len grows, phantom index sampled"),
 "C10-3": ("try_sample guard changed back to total == 0", "float trees zeroed through update with negative residue: panic"),
 "C11-1": ("gamma-method output floored at F::epsilon()", "small-alpha components of gamma-method vectors: all mass below eps collapses onto eps"),
 "C11-2": ("pairwise summation helper drops the middle element of odd slices longer than 32", "odd lengths 33..63: samples sum to 1.03-1.15"),
 "C11-3": ("switch <= 0.1 changed to < 0.1 in Dirichlet::new", "f32, an entry exactly 0.1 with tiny companions: NaN at ~1e-4 per sample"),
 "C11-4": ("Marsaglia-Tsang constant 0.0331 -> 0.0133", "alpha just above 1 (1.01-1.37)"),
 "C13-1": ("Cauchy small-angle shortcut angle < eps^(1/4)", "f32 only: 0.59% of the mass right of the median, KS 12 atoms"),
 "C13-2": ("Frechet powf(-1/shape) became powf(shape).recip()", "any shape != 1"),
 "C13-3": ("Gumbel redraw loop replaced by a clamp that is a no-op in f32", "f32 all-ones pattern: +inf"),
 "C14-1": ("WeightedTreeIndex caches the Uniform in a OnceCell; update(0, w) does not drop it", "sample, then update(0,w), then sample on the same object"),
 "C14-2": ("Dirichlet<f32> gamma method caches a Beta-method fallback in a OnceCell that is part of Debug/PartialEq", "after the first all-underflow draw (1-3 per 1e5) the object no longer equals its earlier clone"),
 "C14-3": ("Poisson rejection method: polynomial coefficients kept per thread, refreshed only by samples that reach procedure F", "two Poisson objects (lambda >= 12) of one float type on one thread"),
 "C15-1": ("WeightedTreeIndex re-sums its subtotals on deserialisation", "float trees after update histories: unequal after the round trip"),
 "C15-2": ("Normal/LogNormal reject a negative standard deviation on load", "std_dev < 0 (documented as valid)"),
 "C15-3": ("Beta validates 'algorithm matches parameters' against the wrong parameter", "min(a,b) <= 1 < max(a,b); Pert with mode at a bound"),
}
res = {}
for path in ["/tmp/mut/all_results.txt"]:
    if os.path.exists(path):
        for l in open(path):
            m = re.match(r"(C\d\d) (\d) rc=(\d+) violations=(\d+) time=(\d+)s :: ?(.*)", l.strip())
            if m:
                res[f"{m.group(1)}-{m.group(2)}"] = {"check": m.group(1), "tier": "quick", "exit": int(m.group(3)), "violation_lines": int(m.group(4)), "wall_s_incl_build": int(m.group(5)), "first_detail": m.group(6)[:300]}
extra = {}
if os.path.exists("/tmp/mut/extra_results.json"):
    extra = json.load(open("/tmp/mut/extra_results.json"))
os.makedirs("/verif/seeded", exist_ok=True)
for key, (what, needs) in sorted(DESC.items()):
    pid, n = key.split("-")
    src = f"/tmp/seed/{pid}/out"
    dst = f"/verif/seeded/{key}"
    if not os.path.exists(f"{src}/patch{n}.diff"):
        continue
    os.makedirs(dst, exist_ok=True)
    shutil.copy(f"{src}/patch{n}.diff", f"{dst}/patch.diff")
    if pid == "C15":
        shutil.copy(f"{src}/demo{n}.rs", f"{dst}/demo.rs")
        for f in ["Cargo.toml"]:
            if os.path.exists(f"{src}/demo_proj/{f}"):
                shutil.copy(f"{src}/demo_proj/{f}", f"{dst}/demo_proj_Cargo.toml")
    else:
        shutil.copy(f"{src}/demo{n}.rs", f"{dst}/demo.rs")
    conf = open(f"/tmp/confirm/res_{pid}_{n}.txt").read().strip() if os.path.exists(f"/tmp/confirm/res_{pid}_{n}.txt") else "not re-run"
    meta = {
        "id": key, "property": pid, "what": what, "needs_to_manifest": needs,
        "origin": "written by an independent sub-agent that saw only the property text and a scratch worktree",
        "confirmed_by_builder": {
            "how": "scratch worktree of /repo HEAD (with the fix: commits): git apply patch.diff; cargo test --offline (full existing suite); demo copied to tests/ and run with the patch (must fail) and without (must pass)" + (" [demo run from a separate cargo project with serde_json/float_roundtrip]" if pid == "C15" else ""),
            "result": conf,
        },
        "detection": res.get(key, {"note": "see DESIGN.md Appendix D"}),
    }
    if key in extra:
        meta["detection_notes"] = extra[key]
    json.dump(meta, open(f"{dst}/meta.json", "w"), indent=1)
# ---- round 2 ----
res2 = {}
if os.path.exists("/tmp/mut/all_results_r2.txt"):
    for l in open("/tmp/mut/all_results_r2.txt"):
        m = re.match(r"(C\d\d) (\d) rc=(\d+) violations=(\d+) time=(\d+)s :: ?(.*)", l.strip())
        if m:
            res2[f"{m.group(1)}-{m.group(2)}"] = {"check": m.group(1), "tier": "quick", "exit": int(m.group(3)), "violation_lines": int(m.group(4)), "wall_s_incl_build": int(m.group(5)), "first_detail": m.group(6)[:300]}
NOTE2 = {
 "C02-1": "NOT caught: the changed regime (Zipf<f32>, |s-1| < 3.4e-4, s != 1) lies inside the region of known finding C02-Zipf-s-near-1, where the unchanged tree already deviates grossly; cells there are excluded / reported as KNOWN-FINDING.",
 "C03-2": "caught after adding an ordinary random-stream phase (1e5 calls per cell) to C03; before that only ~2e4 mostly-random calls per cell were made.",
 "C08-2": "caught after adding fixed vectors at the per-length type maximum to the sampled set of C08.",
 "C08-3": "caught by C14 (clone_from action compares weights()), not by C08, which never calls clone_from.",
 "C14-1": "caught by C10 (states built with sampling between operations; lived-through object vs clone vs fresh build), not by C14, whose objects are immutable. First attempt ended with exit 2: the OnceCell makes the type !Sync and the harness required Sync; the harness now only needs Send + Clone.",
 "C14-2": "same !Sync problem first; caught after the refactor by the new endurance step (1e5 samples per pool cell, Debug/PartialEq unchanged).",
}
for key, (what, needs) in sorted(DESC2.items()):
    pid, n = key.split("-")
    src = f"/tmp/seed2/{pid}/out"
    dst = f"/verif/seeded/R2-{key}"
    if not os.path.exists(f"{src}/patch{n}.diff"):
        continue
    os.makedirs(dst, exist_ok=True)
    shutil.copy(f"{src}/patch{n}.diff", f"{dst}/patch.diff")
    shutil.copy(f"{src}/demo{n}.rs", f"{dst}/demo.rs")
    if pid == "C15" and os.path.exists(f"{src}/demo_proj/Cargo.toml"):
        shutil.copy(f"{src}/demo_proj/Cargo.toml", f"{dst}/demo_proj_Cargo.toml")
    conf = open(f"/tmp/confirm/res2_{pid}_{n}.txt").read().strip() if os.path.exists(f"/tmp/confirm/res2_{pid}_{n}.txt") else "not re-run"
    meta = {
        "id": f"R2-{key}", "round": 2, "property": pid, "what": what, "needs_to_manifest": needs,
        "origin": "second round: independent sub-agent that saw only the property text, a scratch worktree and the one-line list of first-round changes to avoid",
        "confirmed_by_builder": {"how": "scratch worktree of /repo HEAD: git apply patch.diff; cargo test --offline (full existing suite); demo run with the patch (must fail) and without (must pass)", "result": conf},
        "detection": res2.get(key, {"note": "see DESIGN.md Appendix D"}),
    }
    if key in NOTE2:
        meta["detection_notes"] = NOTE2[key]
    json.dump(meta, open(f"{dst}/meta.json", "w"), indent=1)
os.makedirs("/verif/seeded/notes", exist_ok=True)
for pid in sorted(set(k.split("-")[0] for k in DESC2)):
    if os.path.exists(f"/tmp/seed2/{pid}/out/NOTES.md"):
        shutil.copy(f"/tmp/seed2/{pid}/out/NOTES.md", f"/verif/seeded/notes/R2-{pid}-NOTES.md")
print("seeded dirs:", len([d for d in os.listdir("/verif/seeded") if d != "notes"]))
