#!/usr/bin/env python3
"""Round 4: copies the confirmed seeded changes from /tmp/seed4 into /verif/seeded/R4-<id>/ with meta.json.
Detection results are read from /tmp/mut4/results.txt
(lines: '<ID> <N> check=<CHK> rc=.. violations=.. time=..s :: detail'); the line whose check is the change's own
property is the primary result, other lines are recorded as cross-detection."""
import json, os, shutil, re
DESC4 = {
 "C01-1": ("Beta algorithm BC: the constants 0.5 and 0.25 in Cheng's kappa2 swapped", "min(a,b) <= 1, a != b, min close to 1 and max/min large: CDF shift 0.3 % at (3,0.8), 0.9 % at (1,3), 1.5 % at (1,5); also Pert with mode at an end"),
 "C01-2": ("StudentT clamps the chi-squared variate with .max(F::epsilon()) 'to avoid division by zero'", "far tails only: f32 nu <~ 1.5 (P = 2.8e-4 at nu = 1: |T| > 2e4 never produced), f64 nu <~ 0.6"),
 "C01-3": ("NIG gamma computed from (1-|r|)(1+r) instead of 1-r^2", "beta < 0 only: CDF shift 0.1 % at r = -0.01, 1.1 % at NIG(2,-0.2), 8 % at NIG(1,-0.5)"),
 "C02-1": ("Binomial BINV start value r = q.powf(n) instead of exp(n ln_1p(-p))", "tiny p (<= 1e-13) with huge n (>= 1e13), n p < 10, and 1-p rounding up"),
 "C02-2": ("Poisson rejection set-up: F::from(1.0/24.0) tidied to F::from(1/24) (integer division = 0)", "lambda >= 12 only: 0.3-1 % per cell at 12, decaying like 1/lambda"),
 "C02-3": ("Zipf exact s == 1 branch: 1 + ln(n) became n.ln_1p()", "s exactly 1.0 and n >= 2 (ranks above (n+1)/e never appear)"),
 "C03-1": ("Gamma::new: the scale == inf special case dropped", "Gamma(shape < 1, inf): NaN when the boost factor underflows (5.5e-4 at shape 0.01 f64, 3e-5 at 0.1 f32)"),
 "C03-2": ("alias pairwise_sum splits [..=mid] + [mid..] (middle element counted twice)", "float weights with more than 32 entries: zero-weight entries returned w.p. ~1/n"),
 "C03-3": ("one-sided ziggurat draws u from [0,1) instead of (0,1)", "one adversarial word: Exp1 returns exactly 0: Exp(0) / Gamma(inf,.) NaN, FisherF(m,2) +inf, StudentT(2) +-inf"),
 "C05-1": ("Binomial BINV r = exp(n ln(q)) from the rounded q = 1-p", "n >= 3e16, p in (2^-54, 3e-16), n p < 10, 1-p rounding down: 3e3..1e4 words per call (law unchanged)"),
 "C05-2": ("Hypergeometric H2PE step 4: 'y <= 50' became 'ym <= 50' with ym = y - m (abs forgotten)", "CPU only (words unchanged): every proposal left of the mode runs an exact recursion: 1.6 ms per call at N = 2^40, 52 ms at 2^50, seconds at 2^58"),
 "C05-3": ("Hypergeometric HIN bound x < min(n1,k) replaced by a trailing debug_assert", "the all-ones word at the HIN uniform with a pmf sum below 1-2^-53: endless loop consuming no words"),
 "C08-1": ("weights() reports a column with zero remaining odds as weight 0", "a zero weight paired with a column holding exactly one full share, e.g. [0,2,1] -> [0,2,0]"),
 "C08-2": ("float weights summed with the plain iterator sum (pairwise sum removed)", "f32, ~1e4 similar weights: one weight off by ~2 % of itself (15 eps * sum), sampling unaffected"),
 "C08-3": ("weights() renormalises with w * weight_sum / total in W", "integers: overflow whenever w_i * sum > W::MAX (u16 [300,500], u8 [0,68]); f32 above 1e19"),
 "C09-1": ("update() fast path 'unchanged weight' compares with the subtotal", "internal node, new weight == own + children subtotals: update silently dropped (new([0,1]); update(0,1))"),
 "C09-2": ("is_valid() uses total != 0 instead of > 0", "float trees with a negative rounding residue after zeroing every weight"),
 "C09-3": ("update() skips the overflow pre-check for the root", "integer type, update(0, w) increasing beyond MAX: panic instead of Err(Overflow)"),
 "C10-1": ("try_sample treats a zero left subtotal as a leaf", "a node whose whole left subtree sums to zero next to a non-zero right subtree: panic / right subtree never sampled"),
 "C10-2": ("update fast path compares with the subtotal (same mechanism as R4-C09-1)", "update(i, w) on an internal node with w == current subtree total is dropped: sampled law differs from the current weights"),
 "C10-3": ("try_sample leaf test uses right_index >= len", "even lengths only: index len-1 never returned (or the final assert fires)"),
 "C11-1": ("Gamma Marsaglia-Tsang loop rewritten so that NaN comparisons accept", "Gamma method: a negative component w.p. 7e-3 (alpha -> 0) .. 2.6e-3 (1.2) .. 5e-7 (3) per draw; never for alpha = 1 or >= 4"),
 "C11-2": ("Beta overflow check w == inf became w > F::from(1e300)", "f32 only, Beta method (all alpha <= 0.1), a component whose alpha is at least the sum of the later ones: NaN"),
 "C11-3": ("Distribution<Vec<F>>::sample normalises with an f64 accumulator, sample_to_slice with F", "f32, Gamma method: 25-55 % of paired draws differ by 1 ulp between sample() and sample_to_slice()"),
}
res, cross = {}, {}
path = "/tmp/mut4/results.txt"
if os.path.exists(path):
    for l in open(path):
        m = re.match(r"R4-(C\d\d)-(\d) check=(C\d\d) tier=\w+ rc=(\d+) violations=(\d+) time=(\d+)s :: ?(.*)", l.strip())
        if m:
            key = f"{m.group(1)}-{m.group(2)}"
            d = {"check": m.group(3), "tier": "quick", "exit": int(m.group(4)), "violation_lines": int(m.group(5)), "wall_s_incl_build": int(m.group(6)), "first_detail": m.group(7)[:300]}
            if m.group(3) == m.group(1):
                res[key] = d          # the latest run of the own check wins
            else:
                cross.setdefault(key, {})[m.group(3)] = d
notes = json.load(open("/verif/scripts/r4_notes.json")) if os.path.exists("/verif/scripts/r4_notes.json") else {}
for key, (what, needs) in sorted(DESC4.items()):
    pid, n = key.split("-")
    src = f"/tmp/seed4/{pid}/out"
    dst = f"/verif/seeded/R4-{key}"
    if os.path.exists(f"{src}/patch{n}.diff"):
        os.makedirs(dst, exist_ok=True)
        shutil.copy(f"{src}/patch{n}.diff", f"{dst}/patch.diff")
        shutil.copy(f"{src}/demo{n}.rs", f"{dst}/demo.rs")
    elif not os.path.exists(dst):
        continue
    old = json.load(open(f"{dst}/meta.json")) if os.path.exists(f"{dst}/meta.json") else {}
    conf = open(f"/tmp/confirm/res4_{pid}_{n}.txt").read().strip() if os.path.exists(f"/tmp/confirm/res4_{pid}_{n}.txt") else old.get("confirmed_by_builder", {}).get("result", "not re-run")
    meta = {
        "id": f"R4-{key}", "round": 4, "property": pid, "what": what, "needs_to_manifest": needs,
        "origin": "fourth round: independent sub-agent that saw only the property text, a scratch worktree, a list of source files no earlier change had touched and the one-line list of earlier changes to avoid",
        "confirmed_by_builder": {"how": "scratch worktree of /repo HEAD: git apply patch.diff; cargo test --offline (full existing suite, no warnings); demo copied to tests/ and run with the patch (must fail) and without (must pass)" + (" [demo needs --features serde]" if pid == "C15" else ""), "result": conf},
        "detection": res.get(key, old.get("detection", {"note": "see DESIGN.md Appendix D"})),
    }
    cd = dict(old.get("cross_detection", {})); cd.update(cross.get(key, {}))
    if cd:
        meta["cross_detection"] = cd
    if key in notes:
        meta["detection_notes"] = notes[key]
    json.dump(meta, open(f"{dst}/meta.json", "w"), indent=1)
os.makedirs("/verif/seeded/notes", exist_ok=True)
for pid in sorted(set(k.split("-")[0] for k in DESC4)):
    if os.path.exists(f"/tmp/seed4/{pid}/out/NOTES.md"):
        shutil.copy(f"/tmp/seed4/{pid}/out/NOTES.md", f"/verif/seeded/notes/R4-{pid}-NOTES.md")
print("round-4 dirs:", len([d for d in os.listdir("/verif/seeded") if d.startswith("R4-")]))
