#!/bin/bash
# Single entry point named in MANIFEST.json:  scripts/check.sh <ID> [quick|thorough]
# exit 0 = property held on everything explored; 1 = violation (VIOLATION line printed); 2 = infrastructure / inconclusive.
set -u
ID="${1:?usage: check.sh <ID> [quick|thorough]}"
TIER="${2:-${VERIF_TIER:-quick}}"
SEED="${VERIF_SEED:-0}"
case "$SEED" in (*[!0-9]*|'') SEED=0;; esac
HERE="$(cd "$(dirname "$0")/.." && pwd)"
cd "$HERE/harness" || exit 2
export CARGO_NET_OFFLINE=true
export RAYON_NUM_THREADS="${RAYON_NUM_THREADS:-16}"
mkdir -p "$HERE/evidence" "$HERE/replays"
LOG="$HERE/harness/target/build-$ID.log"
mkdir -p "$HERE/harness/target"

build() { # profile
  if ! cargo build --profile "$1" --bin verif >"$LOG" 2>&1; then
    echo "INFRA: harness build failed (profile $1) against /repo working tree; see $LOG"
    tail -n 30 "$LOG"
    exit 2
  fi
}

# the harness depends on rand_distr by path (/repo), so this recompiles the current working tree
build release
FAST="$HERE/harness/target/release/verif"
NEED_CHECKED=0
case "$ID" in C03|C04|C08|C09|C10) NEED_CHECKED=1;; esac
if [ "$NEED_CHECKED" = 1 ]; then
  build checked
  CHECKED="$HERE/harness/target/checked/verif"
fi

# reference laws must agree with the committed scipy/mpmath table, else nothing statistical is believed
case "$ID" in C01|C02|C06|C08|C10|C11|C12|C13)
  if ! "$FAST" golden >/dev/null 2>&1; then
    echo "INFRA: reference laws disagree with golden/ref.json"
    "$FAST" golden | tail -n 5
    exit 2
  fi;;
esac

LIMIT=3600
[ "$TIER" = thorough ] && LIMIT=14400
rc=0
rm -f "$HERE/evidence/.$ID.checked.json"
if [ "$NEED_CHECKED" = 1 ]; then
  VERIF_PROFILE=checked timeout "$LIMIT" "$CHECKED" check "$ID" --tier "$TIER" --seed "$SEED"
  r=$?
  [ "$r" = 124 ] && { echo "INFRA: checked-profile pass timed out"; r=2; }
  [ "$r" -gt "$rc" ] && [ "$r" -le 2 ] && rc=$r
  [ "$r" -gt 2 ] && { echo "INFRA: checked-profile pass died with status $r"; [ "$rc" -lt 1 ] && rc=2; }
fi
VERIF_PROFILE=fast timeout "$LIMIT" "$FAST" check "$ID" --tier "$TIER" --seed "$SEED"
r=$?
[ "$r" = 124 ] && { echo "INFRA: check timed out (inconclusive)"; r=2; }
if [ "$r" -gt 2 ]; then echo "INFRA: check died with status $r"; r=2; fi
# a violation (1) outranks an infrastructure problem (2) only if a VIOLATION line was printed, which exit 1 guarantees
if [ "$rc" = 1 ] || [ "$r" = 1 ]; then exit 1; fi
[ "$r" -gt "$rc" ] && rc=$r
exit $rc
