#!/bin/bash
# Single entry point named in MANIFEST.json:  scripts/check.sh <ID> [quick|thorough]
# exit 0 = property held on everything explored; 1 = violation (VIOLATION line printed); 2 = infrastructure / inconclusive.
set -u
ID="${1:?usage: check.sh <ID> [quick|thorough]}"
TIER="${2:-${VERIF_TIER:-quick}}"
SEED="${VERIF_SEED:-0}"
case "$SEED" in (*[!0-9]*|'') SEED=0;; esac
HERE="$(cd "$(dirname "$0")/.." && pwd)"
cd "$HERE/harness" || exit 2
export CARGO_NET_OFFLINE=true
export VERIF_DIR="$HERE"
export RAYON_NUM_THREADS="${RAYON_NUM_THREADS:-16}"
mkdir -p "$HERE/evidence" "$HERE/replays"
# scripts/eval_seeded.sh patches /repo in place and records the patch in flight here; a marker left behind by a
# killed evaluation means the tree about to be checked may still carry a seeded defect. Informational only: the
# check runs on /repo's working tree as it stands, whatever it contains.
if [ -e "$HERE/.seeded_in_flight" ] && [ -z "${VERIF_SEEDED_EVAL:-}" ]; then
  echo "NOTE: $HERE/.seeded_in_flight names seeded change '$(cat "$HERE/.seeded_in_flight")' (an interrupted scripts/eval_seeded.sh run); /repo's working tree may still contain it" >&2
fi
LOG="$HERE/harness/target/build-$ID.log"
mkdir -p "$HERE/harness/target"

build() { # profile
  if ! cargo build --profile "$1" --bin verif >"$LOG" 2>&1; then
    echo "INFRA: harness build failed (profile $1) against /repo working tree; see $LOG"
    tail -n 30 "$LOG"
    exit 2
  fi
}

# the harness depends on rand_distr by path (/repo), so this recompiles the current working tree
build release
FAST="$HERE/harness/target/release/verif"
NEED_CHECKED=0
case "$ID" in C03|C04|C08|C09|C10) NEED_CHECKED=1;; esac
if [ "$NEED_CHECKED" = 1 ]; then
  build checked
  CHECKED="$HERE/harness/target/checked/verif"
fi

# reference laws must agree with the committed scipy/mpmath table, else nothing statistical is believed
case "$ID" in C01|C02|C06|C08|C10|C11|C12|C13)
  if ! "$FAST" golden >/dev/null 2>&1; then
    echo "INFRA: reference laws disagree with golden/ref.json"
    "$FAST" golden | tail -n 5
    exit 2
  fi;;
esac

LIMIT=3600
[ "$TIER" = thorough ] && LIMIT=14400
rc=0

# --- replay tier: committed regression cases of this property (seconds) --------------------------------
for f in "$HERE"/regressions/"$ID"-*.json; do
  [ -e "$f" ] || continue
  timeout 120 "$FAST" replay "$f"
  r=$?
  if [ "$r" = 0 ] && [ "$NEED_CHECKED" = 1 ]; then timeout 120 "$CHECKED" replay "$f" >/dev/null; r=$?; [ "$r" = 1 ] && "$CHECKED" replay "$f"; fi
  if [ "$r" = 1 ]; then rc=1
  elif [ "$r" = 124 ]; then
    if [ "$ID" = C05 ]; then echo "VIOLATION property=C05 replay=$f"; echo "  detail: replayed call did not return within 120 s (hang)"; rc=1
    else echo "INFRA: replay of $f timed out"; [ "$rc" = 0 ] && rc=2; fi
  elif [ "$r" != 0 ]; then echo "INFRA: replay of $f exited with $r"; [ "$rc" = 0 ] && rc=2; fi
done

rm -f "$HERE/evidence/.$ID.checked.json"
if [ "$NEED_CHECKED" = 1 ]; then
  VERIF_PROFILE=checked timeout "$LIMIT" "$CHECKED" check "$ID" --tier "$TIER" --seed "$SEED"
  r=$?
  [ "$r" = 124 ] && { echo "INFRA: checked-profile pass timed out"; r=2; }
  [ "$r" -gt "$rc" ] && [ "$r" -le 2 ] && rc=$r
  [ "$r" -gt 2 ] && { echo "INFRA: checked-profile pass died with status $r"; [ "$rc" -lt 1 ] && rc=2; }
fi
VERIF_PROFILE=fast timeout "$LIMIT" "$FAST" check "$ID" --tier "$TIER" --seed "$SEED"
r=$?
[ "$r" = 124 ] && { echo "INFRA: check timed out (inconclusive)"; r=2; }
if [ "$r" -gt 2 ]; then echo "INFRA: check died with status $r"; r=2; fi
# --- thorough tier: coverage-guided campaign with the same decoders and oracle (libFuzzer) --------------------
FT=""
case "$ID" in C03|C05) FT=stream_case;; C04) FT=ctor_case;; C08) FT=alias_vector;; C09) FT=tree_history;; C10) FT=tree_sample;; C14) FT=schedule;; esac
if [ "$TIER" = thorough ] && [ -n "$FT" ]; then
  export RUSTFLAGS="--cfg rand_distr_verif"
  cp /repo/Cargo.lock "$HERE/harness/fuzz/Cargo.lock" 2>/dev/null
  if ! cargo +nightly fuzz build --sanitizer none "$FT" >"$LOG.fuzz" 2>&1; then
    echo "INFRA: fuzz target build failed; see $LOG.fuzz"; [ "$r" = 0 ] && r=2
  else
    WORK="$HERE/harness/target/fuzzwork-$ID"; rm -rf "$WORK"; mkdir -p "$WORK/corpus" "$WORK/art"
    : > "$WORK/corpus/empty"
    python3 -c "
import random,sys
random.seed(int('$SEED'))
for i in range(64):
    open('$WORK/corpus/r%d'%i,'wb').write(bytes(random.getrandbits(8) for _ in range(random.choice([8,16,32,64,128,256]))))"
    # 16 parallel libFuzzer jobs over a shared corpus, RUNS executions each (fixed work, seeded)
    case "$FT" in stream_case) RUNS=2000000; ML=64;; ctor_case) RUNS=2000000; ML=96;; tree_history) RUNS=400000; ML=1024;; alias_vector) RUNS=1000000; ML=512;; tree_sample) RUNS=400000; ML=1024;; schedule) RUNS=100000; ML=1024;; esac
    ( cd "$WORK" && cargo +nightly fuzz run --fuzz-dir "$HERE/harness/fuzz" --sanitizer none "$FT" "$WORK/corpus" -- -runs=$RUNS -seed=$((SEED+1)) -max_len=$ML -len_control=0 -artifact_prefix="$WORK/art/" -print_final_stats=1 -jobs=16 -workers=16 >"$WORK/fuzz.log" 2>&1 )
    fr=$?
    cat "$WORK"/fuzz-*.log 2>/dev/null | grep -E "stat::number_of_executed_units" | awk '{s+=$2} END {print "fuzz '"$FT"': executed units (all jobs): " s}'
    [ -n "$(ls -A "$WORK/art" 2>/dev/null)" ] && fr=1
    if [ "$fr" != 0 ]; then
      found=0
      for a in "$WORK"/art/*; do
        [ -e "$a" ] || continue
        "$FAST" fuzz-replay "$FT" "$a" "$ID"; ar=$?
        [ "$ar" = 1 ] && { found=1; r=1; }
      done
      [ "$found" = 0 ] && { echo "INFRA: fuzz campaign ended with status $fr without a reproducible artifact"; tail -n 5 "$WORK/fuzz.log"; [ "$r" = 0 ] && r=2; }
    fi
  fi
  unset RUSTFLAGS
fi
# a violation (1) outranks an infrastructure problem (2) only if a VIOLATION line was printed, which exit 1 guarantees
if [ "$rc" = 1 ] || [ "$r" = 1 ]; then exit 1; fi
[ "$r" -gt "$rc" ] && rc=$r
exit $rc
