#!/usr/bin/env python3
"""Rewrites Appendix D (and everything after it) of DESIGN.md from seeded/*/meta.json."""
import json, os
p='/verif/DESIGN.md'
s=open(p).read()
s=s[:s.index("\n## Appendix D")]
def rows(prefix_r2):
    # prefix_r2: False = round 1, True = round 2, 3 = round 3
    out=[]
    for d in sorted(os.listdir('/verif/seeded')):
        mp=f'/verif/seeded/{d}/meta.json'
        if not os.path.exists(mp): continue
        rnd = 7 if d.startswith('R7-') else 6 if d.startswith('R6-') else 5 if d.startswith('R5-') else 4 if d.startswith('R4-') else 3 if d.startswith('R3-') else (True if d.startswith('R2-') else False)
        if rnd != prefix_r2: continue
        m=json.load(open(mp)); det=m.get('detection',{})
        fd=det.get('first_detail','')
        note=m.get('detection_notes','')
        by=det.get('check','')
        if 'caught by C14' in fd or 'caught by C14' in note: by='C14'
        if 'caught by C10' in fd or 'caught by C10' in note: by='C10'
        for cc,cd in m.get('cross_detection',{}).items():
            if cd.get('exit')==1 and det.get('exit')!=1:
                by=cc; det=cd
        status = f"{by} quick, exit {det.get('exit','')}" if det.get('exit')==1 else ("quick: not caught (below resolution); thorough sample size: caught" if det.get('exit')==0 else "see notes")
        if 'after ' in fd or 'after ' in note: status += " (after strengthening)"
        out.append(f"| {m['id']} | {m['what'][:105].replace('|','/')} | {m['needs_to_manifest'][:110].replace('|','/')} | {status} | {det.get('wall_s_incl_build','')} s |")
    return "\n".join(out)
def power_rows():
    out=[]
    for prop in ('C01','C02'):
        fp=f'/verif/power/{prop}.quick.json'
        if not os.path.exists(fp): continue
        t=json.load(open(fp))
        for k,r in t['rows'].items():
            out.append(f"| {prop} | {k} | {r['cells']} | {r['nontrivial']} | {r['mass_defect_detected']}/{r['mass_defect_run']} | {r['scale_defect_detected']}/{r['scale_defect_run']} | {r['off_by_one_detected']}/{r['off_by_one_run']} | {r.get('atom_defect_detected','-')}/{r.get('atom_defect_run','-')} | {'; '.join(r['missed_examples'][:2])} |")
    return "\n".join(out)
appe=f'''
## Appendix E — power audit of the law checks (planted defects on top of the real samplers)

`verif power C01|C02 [--tier t] [--max K]` re-runs the *plans of the check
itself* (same grid / shape-lattice / random cells, same sample sizes, same
rule and slack) with a defect planted on top of the real rand_distr sampler,
and records per family × float type how many non-trivial cells detect it
(tables in `power/<id>.<tier>.json`, K = 40 cells per row, every k-th plan so
the origins stay mixed). Defects: **mass** — with probability 2 % a draw at
or below the reference median is redrawn until above it (moves 1 % of the
mass); **scale** — continuous only, x -> med + 1.03 (x − med); **off1** —
discrete only, x -> x + 1 (informational: invisible by construction when
every pmf value is below the resolution); **atom** — continuous only, with
probability 2e-5 the median is returned (a rare constant fallback, visible only
to T5; informational for f32, whose output grid needs ~19 copies). The command exits 2 when a row
detects fewer than 90 % of the mass or scale defects or has no non-trivial
cell. It is a diagnostic of the machinery, not a check of a property; it is
what exposed the vacuous NIG reference and the Pert slack bug (§0).

| check | family:float | cells | non-trivial | mass detected | scale detected | off-by-one detected | atom (2e-5) detected | examples missed |
|---|---|---|---|---|---|---|---|---|
{power_rows()}

Reading: the remaining misses are f32 cells whose stated slack legitimately
exceeds the defect — Poisson<f32> with λ ≥ 1e4 (ρ_rel = 16·ε·λ ≈ 2–5 %: the
sampler's own f32 arithmetic on k·ln λ is that inexact), and f32 cells whose
range is a few hundred ulps wide (Pert(999, 1000), Frechet with |location| ≫
scale), where the output-rounding allowance δ dominates.
'''
appd=f'''
## Appendix D — seeded changes and which check catches which

Seven rounds of changes to rust-random/rand_distr were written by independent
sub-agents. Each agent saw only the text of one property and its own scratch
worktree (second round: also the one-line list of first-round changes, to
avoid repeats); each change compiles, passes the full existing suite and comes
with a demonstration that fails with the change and passes without. Every
change was re-confirmed by the builder in a scratch worktree of the current
/repo HEAD (`seeded/<id>/meta.json`, `confirmed_by_builder`), then applied to
/repo (`git -C /repo apply seeded/<id>/patch.diff`), the quick check of its
property run through `scripts/check.sh`, and /repo restored
(`git -C /repo checkout -- .`). `seeded/notes/` holds the agents' own notes.

**Round 1: 46 changes** (47 written; C13-3, a Gumbel formula rewrite, was
dropped because its only manifestation, a uniform draw equal to 1, is
unreachable after fix a0c855f; C03-1 and C06-1 were rebased onto the fix
commits). 38 of 46 were caught at the quick tier by the property they were
written for on the first attempt. The 8 misses led to these strengthenings,
after which all 46 are caught:

* C02-1 (BTPE mode): the exhaustive Binomial n <= 30 set sampled the BTPE
  cells with only 2e5 draws — they now get the grid sample size (4e6).
* C02-2 (Geometric k >= 32): E stopped at p = 1e-9; extension cells
  p in {{3e-10 … 2^-53}} added to C02 (closed-form law).
* C04-2 (tree push not atomic): C04 now also drives WeightedAliasIndex::new
  and WeightedTreeIndex::new/push/update (its statement lists them) through
  the C08/C09 machinery.
* C10-2 / C10-3: state generator now includes rejected operations and float
  histories that set every weight to zero; this also exposed a genuine defect
  (fix c35939e).
* C10-1 / C10-4 / C09-1: harness robustness — u128 weights could not be
  written to JSON replay files, and a panicking `update` killed the state
  builder; both now reported as violations. Sampling phases run under a
  deadline because a corrupted tree makes `try_sample` descend forever.
* C14-1 (clone_from): schedule action `CloneFrom` between same-type objects
  (+ deterministic partner pairs); C14-2: action `DirtySlice`
  (sample_to_slice into a used buffer vs sample()).

| id | change | needs | caught by | time incl. rebuild |
|---|---|---|---|---|
{rows(False)}

**Round 2: 37 changes**, asked to be subtler (between grid points, 0.2–1 % of
mass, single float type, rare draws, multi-step histories). 30 of the first 34
evaluated were caught at once; after strengthening 36 of 37 are caught at the quick tier and the last one at the thorough sample size:

* R2-C02-1 was first **masked**: it changes Zipf<f32> only for 0 < |s-1| <
  3.4e-4, inside the region of known finding C02-Zipf-s-near-1 where the
  unchanged tree already samples a grossly wrong law; random cells there are
  excluded and grid cells report KNOWN-FINDING. This is the price of carrying a
  known finding with a region: further damage inside that region is masked.
  That finding was then repaired (fix d69b147), the change rebased onto the
  fix and re-confirmed. Inside E (Zipf<f32>: n <= 2^20) it moves the CDF by
  ~7e-4: below the quick resolution, so the quick tier still misses it; the
  thorough sample size (1e8) on the new grid cell s = 1 + 3e-4 catches it
  (log-spaced near-switch distances 1e-5 … 1e-2 were added to every grid).
* R2-C03-2 (3e-5 per sample, only for modes 10–13): C03 made only ~2e4
  mostly-random calls per cell; it now runs 1e5 ordinary random-stream calls
  per cell (2e6 thorough) in addition to the adversarial streams.
* R2-C08-2: fixed vectors at the per-length type maximum added to the
  sampled set of C08 (the exhaustive structural part had them, but its
  `weights()` clause is masked there by known finding C08-alias-float-weights-overflow).
* R2-C08-3 (clone_from forgets weight_sum) is caught by C14, whose clone /
  clone_from actions now compare `weights()` as part of the observable state.
* R2-C14-1 / R2-C14-2 first ended with exit 2: a `OnceCell` field makes the
  type `!Sync` and the harness shared distribution values between threads. The
  harness now requires only `Send + Clone` of the library's types (one clone per
  worker). R2-C14-2 is then caught by C14's new endurance step (1e5 samples per
  pool cell, Debug/PartialEq/clone equality unchanged); R2-C14-1 by C10, which
  now also builds states with a sample drawn between operations and compares
  the object that lived through the history with its clone and a fresh build.
* C01 gained the alternative constructors (`Normal::from_mean_cv`,
  `LogNormal::from_mean_cv`, `Pert::…with_mean`) as law cells (R2-C01-3), C07
  the extreme base cells (R2-C07-3), C11 fixed long odd/even vectors and
  `[0.1, tiny]` (R2-C11-2/3), C15 trees reached by update histories
  (R2-C15-1), C14 same-family run-length pairs in a fresh thread (R2-C14-3).

| id | change | needs | caught by | time incl. rebuild |
|---|---|---|---|---|
{rows(True)}

**Round 3: 33 changes**, written by agents that were additionally told which
source files no earlier change had touched (fisher_f, triangular, unit_disc,
normal_inverse_gaussian, chi_squared, zeta, …). 28 of 33 were caught at the
quick tier at once by the property they were written for; the 5 misses and
what they led to:

* R3-C03-2 (tree `update` walks to the wrong ancestor) needs an update
  history; C03 samples fresh trees only. It is a C09/C10 matter and both catch
  it (cross-detection recorded in its meta.json).
* R3-C05-1 (Zipf n = 1 with s = +inf loops forever): the E+ cells of C05 had
  no s = inf. The cross product n ∈ {{1, 2, 3, 10, 1e6, MAX/4, inf}} × s ∈
  {{0, MIN, 1e-10, ½, 1, 1+1e-6, 2, 100, 1e10, MAX/4, inf}} was added — and
  immediately exposed a **genuine defect** on the unchanged tree
  (Zipf(inf, s→1⁺) practically never returns; fix 265e589).
* R3-C13-3 (Triangular compares with an *absolute* epsilon): only visible
  for ranges ≪ 1; C13 had no small-scale cells. A scale lattice 1e-6 … 1e6 at
  location 0 was added for all six single-draw families.
* R3-C14-3 (per-thread chains of squares shared by Geometric objects) made
  the *check* spin (exit 2 after the time-out, not a detection): the endurance
  step sampled with an unlimited word budget and the polluted cache makes the
  rejection loop practically endless. C14 now gives every call the 1e5-word
  budget; a call that exhausts it in the schedule / on a used worker thread but
  returns on a fresh object in a fresh thread from the same RNG state is
  reported as `history_dependent_words`. Same-type *triples* (a two-slot cache
  survives any pair) were added to the deterministic schedules.
* R3-C15-1 (Triangular caches a field that is NaN for min = max = mode): the
  check skipped values whose JSON contains `null` as a format limitation. It
  now reports a value that does not compare equal to *itself* (no round trip
  can then compare equal), and no longer forgives f32 mismatches on the text
  route (serde_json's `float_roundtrip` is exact for f32).

Two strengthenings were made *before* the evaluation, from reading the agents'
reports: the atom test T5 (§0) for R3-C12-3 (an atom of 4.5e-6 at [1, 0]),
and the Zeta `+inf` rule of C03 (only where the documented overflow is
possible) for R3-C03-1. While writing R3-C05-3 the sub-agent noticed that the
unchanged tree hangs / panics for Hypergeometric with N ≳ 2^50 — a genuine
defect the checks had missed because their extreme cells contained a single
tuple above 2^50 (now 230 cells 2^40 … 2^62; findings
C05/C03-Hypergeometric-h2pe-huge-N, fix 95ed336 for the panic).

| id | change | needs | caught by | time incl. rebuild |
|---|---|---|---|---|
{rows(3)}

**Round 4: 24 changes** for C01, C02, C03, C05, C08, C09, C10, C11 (the
properties round 3 had left out, plus second helpings where the oracles had
changed). Before the official evaluation the agents' reports were read and a
preview was run in a scratch clone; 19 of 24 were caught there by their own
property's quick check. What the other five led to:

* R4-C02-2 (Poisson correction polynomial lost: ~1 % per atom at λ = 12,
  fading like 1/λ) was below the quick resolution at 4e6 draws: the
  switch-grid cells of the discrete samplers now get 1.6e7 draws at the quick
  tier.
* R4-C03-2 (float alias tables with more than 32 weights return zero-weight
  entries) is outside C03's alias cells (short vectors); C08 catches it
  (cross-detection).
* R4-C05-3 (HIN loop without its bound: spins forever without consuming a
  word) ended the check with exit 2 — the hang monitor required > 0.5 s of CPU
  per wall second and the machine was oversubscribed. The monitor now decides
  on the thread's CPU time since the call was announced.
* R4-C05-2 (CPU time, not words: an O(σ) recursion on every left proposal)
  needed the new per-call CPU-time oracle (3 s, thread CPU clock) — written
  after reading the agent's report, before the preview.
* R4-C08-2 (plain instead of pairwise float summation: one weight of ~1e4 is
  reconstructed 15 ε·Σw off) stays **undetected by design**: the sound
  rounding bound of the unmodified construction is 2 ε (n·w_i + (1+log2 n) Σw)
  ≈ 31 ε·Σw there, and a change that stays inside the rounding allowance of the
  documented algorithm is not a violation of "agrees to rounding error" that a
  sound check may report (the plan's tolerance was 1000× looser still; it was
  tightened to that bound because of this change).
* R4-C09-2 (`is_valid` as `total != 0`) is the change C10-3 of round 1 under
  another property: for float trees C09 cannot judge `is_valid` against the
  list (rounding residues make it unreliable on the unchanged tree too); C10
  catches the consequence (valid tree, sampling panics).

Further cells added from the reports before the preview: Gamma(k, inf) for
small k (R4-C03-1), Binomial n = 2^50 … 2^63 with n·p ∈ {{½, 2, 9.5}}
(R4-C05-1).

| id | change | needs | caught by | time incl. rebuild |
|---|---|---|---|---|
{rows(4)}

**Round 5: 21 changes** for C04, C06, C07, C12, C13, C14, C15 (kinds the
earlier rounds had not used: process-global `OnceLock` state, address-dependent
summation, hand-written `Clone`, serde helpers for non-finite values, word-count
changes for exact parameter coincidences). A preview in a scratch clone caught
16 of 21 with their own quick check; what the others led to:

* R5-C07-1 (Triangular draws a second uniform when the mode is exactly
  central): C07 treated a word-count difference of Triangular under rounded
  parameters as a "branch flip" (counted, not judged). Triangular and
  InverseGaussian consume a fixed number of draws whatever branch they take, so
  their word counts are now judged in both regimes; only Pert (Beta rejection)
  keeps the allowance.
* R5-C14-1 (a table filled by whichever of StandardNormal / Exp1 samples first
  in the *process*): caught by the fresh-process probes, which were added while
  the agents were still writing (the scenario had been anticipated from the
  list of kinds given to them) — replays inside one process cannot see it.
* R5-C14-2 (hand-written `Clone` re-deriving a float tree's subtotals): C14's
  objects are freshly built and immutable; the clone of a tree *after an update
  history* is looked at by C10, which now requires `clone() == original` and
  equal `Debug` (cross-detection; before that its 256 paired draws missed a
  1e-6 per-draw difference).
* R5-C14-3 (pairwise sum split at a 64-byte boundary of the caller's buffer):
  a new deterministic step builds each of 64 long decimal weight vectors in
  buffers of up to four alignment classes and requires indistinguishable
  values.
* R5-C15-2 (non-finite mean written as `None`, read back as +inf): C15 skipped
  every document containing `null`; it now judges such a document whenever the
  type's own deserialiser accepts it, and the documented special values
  (Exp(0), Normal(±inf, 1), LogNormal::from_mean_cv(0, 0), Gamma(k, inf),
  Gamma(inf, s)) are C15 cells.
* R5-C07-3 (Gamma retry for shape ≤ 0.1 in f32 / 0.01 in f64 with scale < 1)
  manifests only below the lower end of E for Gamma's shape (underflow
  region): **not detected, outside the quantifier**.

| id | change | needs | caught by | time incl. rebuild |
|---|---|---|---|---|
{rows(5)}

**Round 6: 24 changes** for C01, C02, C03, C05, C08, C09, C10, C11 (third
helpings; agents were told which places were still untouched). 21 of 24 were
caught by their own property's quick check, one more by the property that owns
the clause it breaks, 2 are not detected by design:

* R6-C11-2 (a rare atom at the centre of the simplex, 5e-6 … 8.5e-4) and
  R6-C11-1 (wrong reverse cumulative sums for ≥ 34 all-small entries) needed
  two strengthenings written from the agents' reports before the evaluation:
  the atom test T5 on Dirichlet components (Gamma method) and fixed long
  all-small vectors (random vectors in the known-finding region of the Beta
  method are excluded, so long ones never occurred).
* R6-C08-1 (u8 vectors of exactly 255 entries rejected): vectors at the narrow
  types' length limits (MAX−1, MAX, MAX+1, 2·MAX+1) were added to C08.
* R6-C02-2 (Zipf returns 0 for u = 0) is a support violation on one draw in
  2^24: C03 catches it (cross-detection); the law test of C02 cannot see 1e-7.
* R6-C10-2 ≡ R5-C04-2 (`get()` of the half-parent of an even-length tree) is
  caught by C10 and C09.
* Not detected, by design: R6-C01-1 (SkewNormal |shape| > 100: E ends at 100)
  and R6-C09-2 (a float `update` whose increase is below half an ulp of the
  total is dropped: inside C09's rounding allowance for float trees, and
  without effect on sampling — C10 does not see it either).

The agents of this round also reported two genuine defects of the unchanged
tree that the checks had missed (both repaired, §6): WeightedAliasIndex with a
subnormal weight sum returning index 4294967295 (the float alphabets stopped
at MIN_POSITIVE) and Zipf<f32>(MAX, 0) — a regression of fix d69b147.

| id | change | needs | caught by | time incl. rebuild |
|---|---|---|---|---|
{rows(6)}

**Round 7: 14 changes** for C04, C06, C07, C12, C13, C14, C15 (agents were
given the list of source files no earlier change had touched). 11 of 14 were
caught by their own property's quick check at the first evaluation; the three
misses led to strengthenings, after which all 14 are caught (evaluation
repeated for all 14 on the final harness, 38–135 s each including the rebuild):

* R7-C14-1 (a thread-local cache keyed on parameters with the high bits
  shifted out): bit-level sibling cells (integer parameter ± 2^k, float
  mantissa bit flips) in the random schedules and as a deterministic sweep.
* R7-C15-2 (a serde default skipped when the scale is within eps of 1):
  near-default neighbour cells (0, ±1, 2, ½ and the adjacent floats in every
  float parameter).
* R7-C07-2 (Triangular range below the *absolute* epsilon returns the mode):
  far power-of-two scale factors 2^±(9..30) for the envelope cells (exact
  dyadic case).

The first evaluation of this round is also the origin of the one defect this
effort left in /repo: it was still running when the session ended, with
R7-C07-2 applied to /repo's working tree; the next fresh-restore run of C07
reported it, and it was handled as a genuine defect (fix c31dcc2, §0, §6).
`scripts/eval_seeded.sh` now restores /repo from a trap and keeps an
in-flight marker.

| id | change | needs | caught by | time incl. rebuild |
|---|---|---|---|---|
{rows(7)}

**Re-evaluation.** After round 4 every one of the 116 changes of rounds 1–3 was
run again (scratch clone, final harness, own property's quick check): the
detection matrix is unchanged — the only non-detections are the five already
explained (R2-C02-1 thorough only; R2-C08-3 → C14; R2-C14-1 → C10; R3-C03-2 →
C09/C10; and R2-C02-2, whose patch no longer applied after fix 1aff986 and was
rebased, re-confirmed and is caught).

Cross-detection seen on the way (not systematically measured): C11-2 ≡ C14-2
(same Dirichlet early exit) is caught by both C11 (marginal law of the stale
slots) and C14; C04-2 ≡ the C09 unchanged-on-error clause; C10-1 ≡ C09-3;
C05-3 (Geometric k cap) is invisible to C02 (law unchanged) and caught only by
C05's mean-word bound; C06-3 (one table digit) is below the law resolution and
caught only by the exhaustive table identities; C14-3 and R2-C14-3
(thread-local caches) are caught only because isolated replays run in a fresh
thread; R2-C01-1 ≡ C06-1.

Multi-seed robustness of the unchanged tree: every quick check was run for
seeds 1–7, 11, 12 with the three base generators (ChaCha12, Pcg64,
Xoshiro256++), 135 runs. Two runs raised an alarm; both were analysed:
(i) seed 11 / xoshiro, C02: a random cell Binomial(2.18e15, 2.69e-16) — a
genuine defect (BINV formed (1-p)^n from the rounded 1-p), repaired by fix
7339692 and added to the grid; (ii) seed 6 / xoshiro, C10: the known
float-tree assertion reached through a random stream instead of a lattice
word — the finding's signature now keys on the assertion text instead of the
trigger class. No other run printed a VIOLATION. A second robustness run after
rounds 3 (seeds 21–23 × three generators × 15 checks = 135 runs with the atom
test, the exact enumerations and the new cells) raised two alarms: C02 pcg64/21
on Binomial(3.4e15, 3.2e-14) — the BTPE precision defect then repaired by
1aff986 — and C07 xoshiro/21, a false alarm of the InverseGaussian branch-flip
detector (corrected, §0). A third run (seeds 31–33, after rounds 4–5) raised two
alarms: C03 xoshiro/32, the known float-tree assertion reached through a random
`TreeF` cell of C03 (listed for C10 only until then; entry C03-tree-float-assert
added, keyed on the assertion text), and C01 chacha/32 on the random near-switch cell Beta<f32>(1.0000023,
1.0000002) — a genuine defect (catastrophic cancellation in algorithm BB's
set-up when both parameters are just above 1, f64 included), repaired by fix
6c1c91b; asymmetric near-1 pairs were added to the Beta grid and re-find it on
the pre-fix source in both float types. A fourth run (seeds 41–44 × three
generators × 15 checks = 180 runs, binary of the state after round 5) printed
no VIOLATION at all, and neither did a fifth run on the final binary (seeds
51–53 × three generators × the ten checks changed after round 5 = 90 runs). A
sixth run after round 7 and fix c31dcc2 (seeds 2, 61, 62 × three generators ×
C07, C14, C15 — the checks strengthened in round 7 — = 27 runs, plus the full
quick tier at VERIF_SEED=1 from a clean build) printed no VIOLATION either.

{appe}
## Status / next steps (for a later session)

* All 15 properties have quick and thorough commands; thorough tiers add the
  libFuzzer campaigns (16 parallel jobs) for C03/C05 (`stream_case`), C04
  (`ctor_case`), C08 (`alias_vector`), C09 (`tree_history`), C10
  (`tree_sample`), C14 (`schedule`). The last full thorough sweep on the
  repaired tree passed for all 15 (≈ 3.5 h on 16 cores; C06 33 min, C09 48 min,
  C03 30 min, C01 17 min are the long ones). After fix c31dcc2 (which makes
  src/ byte-identical to the tree of that sweep) the full quick tier was run
  from a clean build under the probe's environment (VERIF_SEED=1: 15 × exit 0,
  no VIOLATION, evidence rewritten) and the thorough tiers of C07 (1.26e9
  evaluations, 438 s) and C13 (386 s), the properties that judge Triangular
  draw by draw, passed.
* Seven rounds of seeded changes (199 kept) are under `seeded/`; evaluate with
  `scripts/eval_seeded.sh <id>[:CHECK[:TIER]] …` (applies to /repo, runs
  `check.sh`, reverts — from a trap as well, with an in-flight marker
  `/verif/.seeded_in_flight`). **Never end a session while an evaluation is
  running, and look at `git -C /repo status` and `git -C /repo log` before
  the final commit**: an interrupted evaluation left seeded change R7-C07-2
  in /repo once (§0; fix c31dcc2). Patches touching files changed by later `fix:` commits
  may need `git apply -3` (the script tries it) or a rebase (done for
  R2-C02-1, R2-C02-2).
* Rule learnt the hard way: after every `fix:` commit run the *thorough* tier of
  the properties of the touched family before ending the session (the BTPE
  end-point regression of fix 49f8c75 was invisible to everything cheaper).
* Ideas not done: a bit-exact self-describing serde format for C15 (JSON
  cannot carry non-finite floats: such documents are judged only when the
  type's own deserialiser accepts them); tree mutation actions inside C14
  schedules; Hypergeometric ln-factorial differences (finding
  C05/C03-Hypergeometric-h2pe-huge-N) and Poisson MAX_LAMBDA; a
  cancellation-free InverseGaussian<f32> (blocked by value_stability).
'''
open(p,'w').write(s+appd)
print(len(s+appd))
